"""C19 — Multitaper estimates are weighted means of tapered periodograms."""
import json
import numpy as np
import vlib
from vlib import cz, czl, tolq, fc, fcl, fl
from props import _c19_util as U

LEVEL_TEXT = ("Coq theorems about the Gallina model of pmtm / MultiTapering.__call__ (coq/Model/Mtm.v), for every data length, NFFT, "
              "number of tapers and iteration count: eigenspectra are the NFFT-point DFT of taper*data; 'unity'/'eigen' weights; in the "
              "ordered *-field the adaptive weights are real, lie in [0, 1/lambda] and the spectrum estimate stays positive after EVERY "
              "number of passes (induction on the fuel), the returned weights are Thomson's formula at the estimate of the last completed "
              "pass; the class returns the mean over tapers of weight*|eigenspectrum|^2 (doubled/cut for real data, scaled when "
              "scale_by_freq), which is real and non-negative; precomputed tapers give the same result.  Tie: the model is run in Coq at "
              "binary64 with the harness's twiddle table (NFFT<=64) and exactly over the Gaussian rationals (NFFT in {2,4}) against "
              "pmtm/MultiTapering of the snapshot; search on the implementation with a direct-sum DFT oracle.")
TRUSTED = ["Coq 8.16.1 kernel + vm_compute (PrimFloat for the binary64 runs)",
           "hand-written model coq/Model/Mtm.v (tie = correspondence runs: binary64 with tolerance 1e-9, exact rationals for NFFT 2 and 4)",
           "dpss (tapers, eigenvalues) is an input of the model: the values are taken from the implementation (property C18 is about them)",
           "the real/complex dtype of the data (numpy.isrealobj) and the factor 2*pi/df enter the class model as inputs computed by the harness",
           "Python harness (snapshot, generators, direct-sum DFT oracle, replica of the adaptive loop used to learn the iteration count)"]
UNPROVED = ["convergence of the adaptive iteration (that the 100-pass / tol rule stops with a small change) is not an algebraic fact: "
            "not proved; the loop with its stopping rule is modelled and the reached count is compared, the search checks count < 100",
            "'evaluated at the spectrum the iteration converged to': proved for the estimate ENTERING the last completed pass (by construction); "
            "that this differs from the final estimate by at most tol in the mean is the stopping rule itself; the search checks the "
            "fixed-point residual with a Lipschitz bound",
            "rounding error of the binary64 code is not bounded by a theorem"]
ASSUMPTIONS = ["exact arithmetic in the theorems (ordered *-field; Gaussian rationals are an instance)",
               "adaptive bounds: sigma^2 > 0, 0 < lambda_j <= 1 and the initial estimate non-zero at every bin (otherwise the code divides 0/0)",
               "tapers/eigenvalues consistent: as many eigenvalues as tapers"]
RULE = ("correspondence: real/complex noise, tones, scaled data N=6..48, NW 1..3, k=1..5 (k=1 included), NFFT<=64 (also NFFT<N crop and the default "
        "NFFT=256 once), methods unity/eigen/adapt, tapers computed (dpss oracle) or supplied; exact: low-bit dyadic data/tapers/eigenvalues, NFFT 2 and 4; "
        "search: N 16..1024, NW 1..6, k 1..2NW, NFFT>=N, all methods, class with scale_by_freq both ways; non-trivial = at least 2 tapers or adapt, "
        "data not constant")

TEMPLATE = """Require Import Spectrum.Theory.Ops Spectrum.Theory.Vec Spectrum.Theory.Dft Spectrum.Model.Mtm Spectrum.Instances.QcC %(IMPORTS)s.
%(HEAD)s
Definition T := %(T)s.
Definition shape_ok (M : list (list T)) (r c : nat) : bool := Nat.eqb (length M) r && forallb (fun l => Nat.eqb (length l) c) M.
Definition close_mat tol floor (M : list (list T)) (r c : nat) (I : list T) : bool := shape_ok M r c && %(CLOSE)s tol floor (concat M) I.
Definition orc (t : list (list T)) (e : list T) : nat -> unit -> option nat -> list (list T) * list T := fun _ _ _ => (t, e).
(* pre = true: e and v are supplied by the caller; false: pmtm asks the dpss oracle *)
Definition run_pmtm tw (pre : bool) (t : list (list T)) (e x : list T) (nfft : option nat) (m : mt_method) :=
  @pmtm _ %(OPS)s unit (orc t e) 100 tw x (if pre then None else Some tt) None nfft (if pre then Some e else None) (if pre then Some t else None) m.
Definition pmtm_case tw (pre : bool) t e x (nfft : option nat) (n : nat) (m : mt_method) tol tolw floor iSkc iw (wr wc : nat) iev (icount : option nat) : bool :=
  match run_pmtm tw pre t e x nfft m with
  | None => false
  | Some (Skc, w, ev) =>
      close_mat tol floor Skc (length e) n iSkc && close_mat tolw %(ONE)s w wr wc iw && %(CLOSE)s %(ZERO)s %(ONE)s ev iev
      && match icount with
         | None => true
         | Some c => Nat.eqb (ad_i (@adapt_run _ %(OPS)s 100 Skc e x n)) c
         end
  end.
Definition pmtm_raises tw x (nw : option unit) (e : option (list T)) (v : option (list (list T))) : bool :=
  match @pmtm _ %(OPS)s unit (orc [] []) 100 tw x nw None (Some 4%%nat) e v Unity with None => true | Some _ => false end.
Definition class_case tw (pre : bool) t e x (nfft : option nat) (isr : bool) (m : mt_method) (sbf : bool) scale tol floor ipsd : bool :=
  match @mt_call _ %(OPS)s unit (orc t e) 100 tw isr x (if pre then None else Some tt) None nfft (if pre then Some e else None) (if pre then Some t else None) m sbf scale with
  | None => false
  | Some psd => %(CLOSE)s tol floor psd ipsd
  end.
"""
PRE_F = TEMPLATE % dict(IMPORTS='Spectrum.Instances.FloatC Spectrum.Instances.FloatTw', HEAD='From Coq Require Import PrimFloat.\nLocal Open Scope float_scope.',
                        T='FloatC', CLOSE='fc_close_rel', OPS='fc_ops', ONE='1%float', ZERO='0%float')
PRE_Q = TEMPLATE % dict(IMPORTS='Spectrum.Instances.QcCTw', HEAD='From Coq Require Import QArith Qcanon.\nLocal Open Scope Z_scope.',
                        T='QcC', CLOSE='qcc_close_rel', OPS='qcc_ops', ONE='(dy 1 0)', ZERO='(dy 0 0)')

METHODS = ['unity', 'eigen', 'adapt']
MCOQ = {'unity': 'Unity', 'eigen': 'Eigen', 'adapt': 'Adapt'}


# ----------------------------------------------------------------------------- literals
def fmat(M):
    return '[' + '; '.join(fcl(r) for r in np.atleast_2d(M)) + ']'


def qmat(M):
    return '[' + '; '.join(czl(r) for r in np.atleast_2d(M)) + ']'


def twtable(n):
    import cmath
    return fcl([cmath.exp(-2j * cmath.pi * j / n) for j in range(n)])


def optnat(v):
    return 'None' if v is None else '(Some %d%%nat)' % v


def cbool(b):
    return 'true' if b else 'false'


# ----------------------------------------------------------------------------- data
def gen_data(rng, N, cplx, style):
    t = np.arange(N)
    if style == 'noise':
        x = rng.standard_normal(N) + (1j * rng.standard_normal(N) if cplx else 0)
    elif style == 'tone':
        f = rng.uniform(0.05, 0.45)
        x = (np.exp(2j * np.pi * f * t) if cplx else np.cos(2 * np.pi * f * t)) + 0.1 * (rng.standard_normal(N) + (1j * rng.standard_normal(N) if cplx else 0))
    elif style == 'twotone':
        f1, f2 = rng.uniform(0.05, 0.45, size=2)
        x = np.cos(2 * np.pi * f1 * t) + 0.01 * np.cos(2 * np.pi * f2 * t + 1) + 1e-3 * rng.standard_normal(N)
        if cplx:
            x = x + 1j * (np.sin(2 * np.pi * f1 * t) + 1e-3 * rng.standard_normal(N))
    elif style == 'int':
        x = rng.integers(-8, 9, size=N).astype(float) + (1j * rng.integers(-8, 9, size=N) if cplx else 0)
        if not np.any(x):
            x[0] = 1
    else:  # scaled
        x = (rng.standard_normal(N) + (1j * rng.standard_normal(N) if cplx else 0)) * 10.0 ** int(rng.integers(-4, 5))
    return x if cplx else np.asarray(x, dtype=float)


def impl_replica(x, tapers, ev, nfft):
    """iteration count the code reaches and the margin of its stopping tests: the adaptive loop re-run with numpy's own FFT"""
    Sk = np.abs(np.fft.fft(tapers.T * x, nfft)) ** 2
    sig2 = float(np.sum(np.abs(x) ** 2) / float(len(x)))
    return U.adaptive_replica(Sk, ev, sig2, nfft)


# ----------------------------------------------------------------------------- property on the implementation
def oracle_weights(method, ev, Sk, sig2, nfft):
    """independent weights, shape (nfft, k) broadcastable: returns (W (k,nfft) weight of taper j at bin f, info)"""
    k = len(ev)
    if method == 'unity':
        return np.ones((k, nfft)), None
    if method == 'eigen':
        return np.array([[ev[j] / (j + 1.0)] * nfft for j in range(k)]), None
    rep = U.adaptive_replica(Sk, ev, sig2, nfft)
    return rep['weights'].T, rep


def check_case(x, NW, k, nfft, method, sbf=False, fs=1.0, tag='', parts=('pmtm', 'class', 'pre')):
    """every clause of C19 on the implementation for one configuration; returns [(key, what)]"""
    from spectrum.mtm import pmtm, dpss, MultiTapering
    bad = []
    x = np.asarray(x)
    N = len(x); real = bool(np.isrealobj(x))
    tapers, ev0 = dpss(N, NW, k)
    kind = ('real' if real else 'complex') + '/' + method + ('/k1' if len(ev0) == 1 else '')
    tapers = np.array(tapers, copy=True); ev0 = np.array(ev0, copy=True)
    kk = len(ev0)
    n = nfft if nfft is not None else max(256, 2 ** int(np.ceil(np.log2(N))))
    Skc_o = U.dft_oracle(tapers.T * x, n)
    Sk_o = np.abs(Skc_o) ** 2
    sig2 = float(np.sum(x.real ** 2 + x.imag ** 2) / N)
    sscale = max(np.max(np.abs(Skc_o)), 1e-300)
    try:
        res = pmtm(x, NW=NW, k=k, NFFT=nfft, method=method)
    except Exception as e:  # noqa
        return [('pmtm_raises/pmtm/' + kind, 'pmtm raised %r' % (e,))]
    Skc, w, ev = res
    Skc = np.asarray(Skc); w = np.asarray(w); ev = np.asarray(ev)
    # eigenspectra
    if Skc.shape != (kk, n):
        bad.append(('eigenspectra_shape/pmtm/' + kind, 'Sk_complex has shape %r, expected %r' % (Skc.shape, (kk, n))))
        return bad
    if np.max(np.abs(Skc - Skc_o)) > 1e-9 * sscale:
        bad.append(('eigenspectra/pmtm/' + kind, 'Sk_complex is not the NFFT-point DFT of taper*data (max dev %.3g, scale %.3g)' % (np.max(np.abs(Skc - Skc_o)), sscale)))
    # eigenvalues
    if ev.shape != ev0.shape or not np.array_equal(ev, ev0):
        bad.append(('eigenvalues_returned/pmtm/' + kind, 'third item is not the vector of taper eigenvalues'))
    # weights
    W_o, rep = oracle_weights(method, ev0, Sk_o, sig2, n)
    if method in ('unity', 'eigen'):
        if w.shape != (kk, 1):
            bad.append(('weights_shape/pmtm/' + kind, 'weights have shape %r, expected %r' % (w.shape, (kk, 1)))); return bad
        Wi = np.repeat(w, n, axis=1)
        if method == 'unity' and not np.all(w == 1):
            bad.append(('weights_unity/pmtm/' + kind, 'unity weights are not all 1'))
        if method == 'eigen' and (np.iscomplexobj(w) or np.max(np.abs(w[:, 0] - ev0 / (np.arange(kk) + 1.0))) > 1e-12 * max(1.0, np.max(np.abs(ev0)))):
            bad.append(('weights_eigen/pmtm/' + kind, 'eigen weights are not eigenvalue/(index+1): %r vs eigenvalues %r' % (w[:, 0].tolist(), ev0.tolist())))
    else:
        if w.shape != (n, kk):
            bad.append(('weights_shape/pmtm/' + kind, 'weights have shape %r, expected %r' % (w.shape, (n, kk)))); return bad
        Wi = w.T
        if np.iscomplexobj(w):
            bad.append(('weights_adapt_real/pmtm/' + kind, 'adaptive weights are complex (max |imag| %.3g)' % np.max(np.abs(w.imag))))
        elif not np.all(np.isfinite(w)):
            bad.append(('weights_adapt_finite/pmtm/' + kind, 'adaptive weights are not finite'))
        else:
            lam = ev0.reshape(1, -1)
            if np.any(w < 0) or np.any(w * lam > 1 + 1e-9):
                bad.append(('weights_adapt_range/pmtm/' + kind, 'adaptive weight outside [0, 1/eigenvalue]: min %.6g, max w*lambda %.12g' % (np.min(w), np.max(w * lam))))
            # Thomson's formula at the spectrum the iteration converged to: S* = weighted mean with the returned weights
            Sstar = np.sum(w.T * Sk_o, axis=0) / np.sum(w.T, axis=0)
            tolS = 0.0005 * sig2                      # the stopping rule bounds sum_f |S_last - S_prev| by this
            a = sig2 * (1 - lam)
            lo = np.maximum(Sstar - tolS, 0).reshape(-1, 1); hi = (Sstar + tolS).reshape(-1, 1)
            slope = U.thomson_slope_max(lo, hi, lam, a)
            dev = np.abs(w - U.thomson(Sstar, ev0, sig2))
            if rep['count'] >= 100:
                bad.append(('adapt_converged/pmtm/' + kind, 'the adaptive iteration did not meet its tolerance within 100 passes'))
            elif np.any(dev > slope * tolS * (1 + 1e-6) + 1e-9):
                bad.append(('weights_adapt_thomson_fixed_point/pmtm/' + kind,
                            'adaptive weights are not Thomson\'s formula at the converged spectrum (max excess %.3g)' % np.max(dev - slope * tolS)))
            # tight: the formula at the estimate entering the last completed pass
            if rep['margin'] > 1e-6:
                if np.max(np.abs(w - rep['weights'])) > 1e-9 * max(1.0, np.max(np.abs(rep['weights']))):
                    bad.append(('weights_adapt_thomson/pmtm/' + kind,
                                'adaptive weights differ from b^2*lambda, b=S/(lambda S+(1-lambda)sigma^2), at the last estimate (max dev %.3g, %d passes)' % (np.max(np.abs(w - rep['weights'])), rep['count'])))
    # class
    if 'class' in parts:
        try:
            from props import _estimators as E
            route, _ = E.route_for(x, NW, k, nfft, method, sbf)
            p = E.via(lambda d, n, s_, b: MultiTapering(d, NW=NW, k=k, NFFT=n, method=method, scale_by_freq=b, sampling=s_), x, nfft, fs, sbf, route)
            if route == 'fresh':
                p()
            psd = np.asarray(p.psd)
        except Exception as e:  # noqa
            bad.append(('class_raises/MultiTapering/' + kind, 'MultiTapering raised %r' % (e,)))
            psd = None
        if psd is not None:
            nc = nfft if nfft is not None else N          # the class's own default
            if nc != n:
                Sk_c = np.abs(U.dft_oracle(tapers.T * x, nc)) ** 2
                W_c, _ = oracle_weights(method, ev0, Sk_c, sig2, nc)
            else:
                Sk_c, W_c = Sk_o, W_o
            expect = U.fold(np.sum(W_c * Sk_c, axis=0) / float(kk), nc, real)
            if sbf:
                expect = expect * (2 * np.pi / (fs / float(nc)))
            if psd.shape != expect.shape:
                bad.append(('class_fold_length/MultiTapering/' + kind, 'psd has %d entries, expected %d (NFFT=%d)' % (psd.size, expect.size, nc)))
            else:
                if np.iscomplexobj(psd):
                    bad.append(('class_real/MultiTapering/' + kind, 'psd is complex (max |imag| %.3g)' % np.max(np.abs(psd.imag))))
                if not np.all(np.isfinite(psd)) or np.any(psd.real < 0):
                    bad.append(('class_nonneg/MultiTapering/' + kind, 'psd has a negative or non-finite entry (min %r)' % np.min(psd.real)))
                cs = max(np.max(np.abs(expect)), 1e-300)
                tolc = 1e-9 if (method != 'adapt' or rep is None or rep['margin'] > 1e-6 or nc != n) else 1e-3
                if np.max(np.abs(psd - expect)) > tolc * cs:
                    j = int(np.argmax(np.abs(psd - expect)))
                    bad.append(('class_weighted_mean/MultiTapering/' + kind + ('/sbf' if sbf else ''),
                                'psd is not the mean over tapers of weight*|Sk|^2%s%s: bin %d is %r, expected %r' % (
                                    ' doubled and cut to the one-sided grid' if real else '', ' times 2*pi/df' if sbf else '', j, psd[j], expect[j])))
    # precomputed tapers (same values, same memory layout; agreement to rounding: numpy's reductions depend on the layout)
    if 'pre' in parts:
        def same(a, b):
            a = np.asarray(a); b = np.asarray(b)
            return a.shape == b.shape and a.dtype == b.dtype and bool(np.all(np.abs(a - b) <= 1e-12 * max(np.max(np.abs(a)), 1e-300)))
        try:
            r2 = pmtm(x, e=ev0.copy(), v=tapers.copy(order='K'), NFFT=nfft, method=method)
            if not all(same(a, b) for a, b in zip(res, r2)):
                bad.append(('precomputed_same/pmtm/' + kind, 'pmtm(e=, v=) differs from pmtm(NW=, k=) with the same tapers'))
            if 'class' in parts and psd is not None:
                p2 = MultiTapering(x, e=ev0.copy(), v=tapers.copy(order='K'), NFFT=nfft, method=method, scale_by_freq=sbf, sampling=fs)
                p2()
                if not same(p2.psd, psd):
                    bad.append(('precomputed_same/MultiTapering/' + kind, 'MultiTapering(e=, v=) differs from MultiTapering(NW=, k=)'))
            # ANY supplied set is used as given: the same tapers in the opposite order (eigenvalues then increase), with and without a
            # (redundant) NW next to them: eigenspectrum i belongs to supplied taper i, the eigenvalues come back as supplied
            e2 = ev0[::-1].copy(); v2 = np.ascontiguousarray(tapers[:, ::-1])
            for extra in ({}, {'NW': NW}):
                lab = 'pmtm(e=, v=%s)' % (', NW=' if extra else '')
                r3 = pmtm(x, e=e2.copy(), v=v2.copy(), NFFT=nfft, method=method, **extra)
                S3 = np.asarray(r3[0]); w3 = np.asarray(r3[1]); e3 = np.asarray(r3[2])
                if S3.shape != Skc_o.shape or np.max(np.abs(S3 - Skc_o[::-1])) > 1e-9 * sscale:
                    bad.append(('precomputed_as_given/pmtm/' + kind, '%s: eigenspectrum i is not the DFT of supplied taper i times the data (tapers supplied in increasing order of eigenvalue)' % lab)); break
                if e3.shape != e2.shape or not np.array_equal(e3, e2):
                    bad.append(('precomputed_as_given/pmtm/' + kind, '%s: the returned eigenvalues are not the supplied ones' % lab)); break
                if method == 'eigen' and (w3.shape != (kk, 1) or np.max(np.abs(w3[:, 0] - e2 / (np.arange(kk) + 1.0))) > 1e-12 * max(1.0, np.max(np.abs(e2)))):
                    bad.append(('precomputed_as_given/pmtm/' + kind, '%s: eigen weights are not supplied eigenvalue/(index+1)' % lab)); break
                # (adaptive weights: the iteration starts from the mean of the FIRST TWO eigenspectra, so its limit within the stopping
                #  tolerance depends on the order of the tapers; only the shape is compared)
                if method == 'adapt' and w3.shape != (n, kk):
                    bad.append(('precomputed_as_given/pmtm/' + kind, '%s: adaptive weights have shape %r' % (lab, w3.shape))); break
        except Exception as e:  # noqa
            bad.append(('precomputed_raises/pmtm/' + kind, 'pmtm with precomputed tapers raised %r' % (e,)))
    return bad


def check_default_k(x, NW, nfft, method):
    """k omitted: pmtm and the class use the tapers dpss(N, NW) returns for an omitted k (one resolution of the default, in one place)"""
    from spectrum import pmtm, dpss
    from spectrum.mtm import MultiTapering
    N = len(x)
    v, e = dpss(N, NW)
    r1 = pmtm(x, NW=NW, NFFT=nfft, method=method)
    r2 = pmtm(x, e=e.copy(), v=v.copy(), NFFT=nfft, method=method)
    bad = []
    S1 = np.asarray(r1[0]); S2 = np.asarray(r2[0])
    if S1.shape != S2.shape:
        return [('default_k/pmtm', 'pmtm(x, NW=%r) uses %d tapers, dpss(N, NW=%r) returns %d' % (NW, S1.shape[0], NW, S2.shape[0]))]
    if np.max(np.abs(S1 - S2)) > 1e-9 * max(np.max(np.abs(S2)), 1e-300) or not np.allclose(np.asarray(r1[2]), np.asarray(r2[2]), rtol=1e-12, atol=0):
        bad.append(('default_k/pmtm', 'pmtm(x, NW=%r) with k omitted differs from pmtm with the tapers of dpss(N, NW=%r)' % (NW, NW)))
    p = MultiTapering(x, NW=NW, NFFT=nfft, method=method, scale_by_freq=False); q = MultiTapering(x, e=e.copy(), v=v.copy(), NFFT=nfft, method=method, scale_by_freq=False)
    a = np.asarray(p.psd); b = np.asarray(q.psd)
    tol = 1e-9 if method != 'adapt' else 1e-6
    if a.shape != b.shape or np.max(np.abs(a - b)) > tol * max(np.max(np.abs(b)), 1e-300):
        bad.append(('default_k/MultiTapering', 'MultiTapering(x, NW=%r) with k omitted differs from the object given the tapers of dpss(N, NW=%r)' % (NW, NW)))
    return bad


def check_rerun(x, N, cfg1, cfg2):
    """the class result is the weighted mean for the CURRENT NW / k / method / tapers: run, change them, run again, compare with a fresh object"""
    from spectrum.mtm import MultiTapering
    p = MultiTapering(x, NW=cfg1['NW'], k=cfg1['k'], method=cfg1['method'], NFFT=cfg1['NFFT'], scale_by_freq=False)
    p()
    p.NW = cfg2['NW']; p.k = cfg2['k']; p.method = cfg2['method']
    p()
    q = MultiTapering(x, NW=cfg2['NW'], k=cfg2['k'], method=cfg2['method'], NFFT=cfg1['NFFT'], scale_by_freq=False)
    q()
    a = np.asarray(p.psd); b = np.asarray(q.psd)
    bad = []
    if a.shape != b.shape or np.max(np.abs(a - b)) > 1e-9 * max(np.max(np.abs(b)), 1e-300):
        bad.append(('class_rerun/MultiTapering/psd', 'after changing NW/k/method and running again the PSD is not the weighted mean a fresh object with those values returns'))
    ea = np.asarray(p.eigenvalues); eb = np.asarray(q.eigenvalues)
    if ea.shape != eb.shape or np.max(np.abs(ea - eb)) > 1e-9:
        bad.append(('class_rerun/MultiTapering/eigenvalues', 'eigenvalues are those of the previous NW/k'))
    # tapers SUPPLIED to an existing object (attributes e and v) are the ones used from then on
    from spectrum import dpss
    v2, e2 = dpss(N, cfg2['NW'], cfg2['k'])
    r = MultiTapering(x, NW=cfg1['NW'], k=cfg1['k'], method=cfg2['method'], NFFT=cfg1['NFFT'], scale_by_freq=False)
    r()
    r.e = e2.copy(); r.v = v2.copy()
    r()
    c = np.asarray(r.psd)
    if c.shape != b.shape or np.max(np.abs(c - b)) > 1e-9 * max(np.max(np.abs(b)), 1e-300):
        bad.append(('class_rerun/MultiTapering/supplied_tapers', 'after assigning precomputed tapers (e, v) to an object built with NW/k and running again, the PSD is not the one of the supplied tapers'))
    return bad


def replay(rep):
    if rep.get('replay', {}).get('form') == 'routes':
        from props import _estimators as E_
        return E_.replay_routes(rep['replay'])
    if rep['replay'].get('protocol') == 'values_only':
        from props import _purity
        return _purity.replay_protocol(rep['replay'])
    r = rep['replay']
    x = vlib.unhexv(r['x'])
    if not r.get('complex', False):
        x = np.asarray(x.real, dtype=float)
    if r.get('kind') == 'rerun':
        return not check_rerun(x, len(x), r['cfg1'], r['cfg2'])
    if r.get('kind') == 'default_k':
        return not check_default_k(x, r['NW'], r.get('NFFT'), r['method'])
    if r.get('dtype') == 'int64':
        x = x.astype(np.int64)
    return not check_case(x, r['NW'], r['k'], r.get('NFFT'), r['method'], sbf=r.get('scale_by_freq', False), fs=r.get('sampling', 1.0))


# ----------------------------------------------------------------------------- correspondence generators
def corr_float(ctx, rng, n_cases):
    from spectrum.mtm import pmtm, dpss, MultiTapering
    cases = []; meta = []
    tries = 0
    while len(cases) < n_cases and tries < 50 * n_cases:
        tries += 1
        i = len(cases)
        method = METHODS[i % 3]
        kindc = 'class' if (i // 3) % 2 else 'pmtm'
        cplx = bool(rng.integers(0, 2))
        N = int(rng.integers(6, 49))
        NW = float(rng.choice([1, 1.5, 2, 2.5, 3]))
        if NW >= N / 2.0:
            continue
        k = int(rng.integers(1, min(int(2 * NW), 5) + 1))
        if i % 7 == 3:
            k = 1
        mode = rng.choice(['ge', 'ge', 'ge', 'eq', 'crop', 'none'])
        if mode == 'ge':
            nfft = int(rng.integers(N, 65)) if N < 64 else N
        elif mode == 'eq':
            nfft = N
        elif mode == 'crop':
            nfft = int(rng.integers(max(4, N // 2), N + 1))
        else:
            nfft = None
        if nfft is None and kindc == 'pmtm' and ctx.dist.get('corr-float/default-nfft-256', 0) >= ctx.q(1, 4):
            nfft = N
        style = str(rng.choice(['noise', 'tone', 'twotone', 'int', 'scaled']))
        x = gen_data(rng, N, cplx, style)
        pre = bool(rng.integers(0, 2))
        tapers, ev = dpss(N, NW, k)
        tapers = np.array(tapers, copy=True); ev = np.array(ev, copy=True)
        n = nfft if nfft is not None else (max(256, 2 ** int(np.ceil(np.log2(N)))) if kindc == 'pmtm' else N)
        count = None
        if method == 'adapt':
            rep = impl_replica(x, tapers, ev, n)
            if rep['margin'] < 1e-6 or not np.all(np.isfinite(rep['weights'])):
                ctx.count('corr-float/regenerated-borderline-stop'); continue
            count = rep['count']
        kw = dict(e=ev.copy(), v=tapers.copy()) if pre else dict(NW=NW, k=k)
        tw = '(tw_table %s)' % twtable(n)
        args = '%s %s %s %s %s %s' % (tw, cbool(pre), fmat(tapers.T), fcl(ev), fcl(x), optnat(nfft))
        m = {'kind': kindc, 'method': method, 'complex': cplx, 'x': vlib.hexv(x), 'NW': NW, 'k': k, 'NFFT': nfft, 'precomputed': pre, 'adapt_passes': count}
        try:
            if kindc == 'pmtm':
                Skc, w, evr = pmtm(x, NFFT=nfft, method=method, **kw)
                w = np.asarray(w)
                if not np.all(np.isfinite(w)):
                    ctx.count('corr-float/regenerated-nonfinite'); continue
                floor = fl(1e-300)
                cases.append('pmtm_case %s %d%%nat %s %s %s %s %s %s %d%%nat %d%%nat %s %s' % (
                    args, n, MCOQ[method], fl(1e-9), fl(1e-8), floor, fcl(np.asarray(Skc).ravel()), fcl(w.ravel()),
                    w.shape[0], w.shape[1], fcl(evr), optnat(count)))
                if nfft is None:
                    ctx.count('corr-float/default-nfft-256')
            else:
                sbf = bool(rng.integers(0, 2)); fs = float(rng.choice([1.0, 2.0, 1024.0, 0.5]))
                p = MultiTapering(x, NFFT=nfft, method=method, scale_by_freq=sbf, sampling=fs, **kw)
                p()
                psd = np.asarray(p.psd)
                if not np.all(np.isfinite(psd)):
                    ctx.count('corr-float/regenerated-nonfinite'); continue
                scale = 2 * np.pi / (fs / float(n))
                m.update(scale_by_freq=sbf, sampling=fs)
                cases.append('class_case %s %s %s %s %s %s %s %s' % (
                    args, cbool(not cplx), MCOQ[method], cbool(sbf), fc(scale), fl(1e-8 if method == 'adapt' else 1e-9), fl(1e-300), fcl(psd)))
        except Exception as e:  # noqa
            ctx.violation('%s_raises/%s/%s/%s%s' % (kindc, 'pmtm' if kindc == 'pmtm' else 'MultiTapering', 'complex' if cplx else 'real', method, '/k1' if k == 1 else ''),
                          'raised %r' % (e,), {'x': vlib.hexv(x), 'complex': cplx, 'NW': NW, 'k': k, 'NFFT': nfft, 'method': method})
            ctx.count('corr-float/implementation-raised')
            if ctx.dist['corr-float/implementation-raised'] > 20:
                break
            continue
        meta.append(m)
        ctx.count('corr-float/%s/%s/%s%s' % (kindc, 'complex' if cplx else 'real', method, '/k1' if k == 1 else ''))
        ctx.case(('corr-float', kindc, x.tobytes(), NW, k, nfft, method, pre), nontrivial=(k >= 2 or method == 'adapt'),
                 sample={'function': 'pmtm' if kindc == 'pmtm' else 'MultiTapering', 'N': N, 'NW': NW, 'k': k, 'NFFT': nfft, 'method': method,
                         'data': ('complex' if cplx else 'real') + '/' + style, 'precomputed': pre, 'adapt_passes': count})
    return cases, meta


DY_EV = [1.0, 0.5, 0.75, 0.875, 0.9375, 0.96875, 0.25]


def lowbit(rng, shape, cplx, den=4, span=8):
    x = rng.integers(-span, span + 1, size=shape).astype(float) / den
    if cplx:
        x = x + 1j * rng.integers(-span, span + 1, size=shape) / den
    return x


def corr_exact(ctx, rng, n_cases):
    from spectrum.mtm import pmtm, MultiTapering
    cases = []; meta = []
    tries = 0
    while len(cases) < n_cases and tries < 80 * n_cases:
        tries += 1
        i = len(cases)
        method = METHODS[i % 3]
        kindc = 'class' if (i // 3) % 2 else 'pmtm'
        cplx = bool(rng.integers(0, 2))
        nfft = int(rng.choice([2, 4]))
        N = int(rng.integers(2, nfft + 1))
        k = int(rng.integers(1, 4))
        x = lowbit(rng, N, cplx)
        if np.count_nonzero(x) == 0:
            x[0] = 1
        v = lowbit(rng, (N, k), False, den=8, span=8)
        if np.any(np.sum(np.abs(v), axis=0) == 0):
            continue
        ev = np.array([float(rng.choice(DY_EV)) for _ in range(k)])
        count = None
        if method == 'adapt':
            rep = impl_replica(x, v, ev, nfft)
            if rep['margin'] < 1e-6 or not np.all(np.isfinite(rep['weights'])) or not np.all(np.isfinite(rep['S'])):
                ctx.count('corr-exact/regenerated-degenerate-or-borderline'); continue
            if rep['count'] > 3:
                ctx.count('corr-exact/regenerated-more-than-3-passes'); continue
            count = rep['count']
        tw = 'tw2' if nfft == 2 else 'tw4'
        args = '%s true %s %s %s (Some %d%%nat)' % (tw, qmat(v.T), czl(ev), czl(x), nfft)
        m = {'kind': kindc, 'method': method, 'complex': cplx, 'x': vlib.hexv(x), 'v': [vlib.hexv(c) for c in v.T], 'e': vlib.hexv(ev), 'NFFT': nfft, 'adapt_passes': count}
        try:
            if kindc == 'pmtm':
                Skc, w, evr = pmtm(x, e=ev.copy(), v=v.copy(), NFFT=nfft, method=method)
                w = np.asarray(w)
                if not np.all(np.isfinite(w)):
                    ctx.count('corr-exact/regenerated-nonfinite'); continue
                cases.append('pmtm_case %s %d%%nat %s %s %s %s %s %s %d%%nat %d%%nat %s %s' % (
                    args, nfft, MCOQ[method], tolq(1e-12), tolq(1e-9), tolq(1e-300), czl(np.asarray(Skc).ravel()), czl(w.ravel()),
                    w.shape[0], w.shape[1], czl(evr), optnat(count)))
            else:
                sbf = bool(rng.integers(0, 2)); fs = float(rng.choice([1.0, 2.0, 8.0]))
                p = MultiTapering(x, e=ev.copy(), v=v.copy(), NFFT=nfft, method=method, scale_by_freq=sbf, sampling=fs)
                p()
                psd = np.asarray(p.psd)
                if not np.all(np.isfinite(psd)):
                    ctx.count('corr-exact/regenerated-nonfinite'); continue
                scale = 2 * np.pi / (fs / float(nfft))
                m.update(scale_by_freq=sbf, sampling=fs)
                cases.append('class_case %s %s %s %s %s %s %s %s' % (
                    args, cbool(not cplx), MCOQ[method], cbool(sbf), cz(scale), tolq(1e-9), tolq(1e-300), czl(psd)))
        except Exception as e:  # noqa
            ctx.violation('%s_raises/%s/%s/%s%s' % (kindc, 'pmtm' if kindc == 'pmtm' else 'MultiTapering', 'complex' if cplx else 'real', method, '/k1' if k == 1 else ''),
                          'raised %r on supplied tapers (N=%d, k=%d, NFFT=%d)' % (e, N, k, nfft), {'x': vlib.hexv(x), 'complex': cplx, 'NW': 1, 'k': k, 'NFFT': nfft, 'method': method})
            ctx.count('corr-exact/implementation-raised')
            if ctx.dist['corr-exact/implementation-raised'] > 20:
                break
            continue
        meta.append(m)
        ctx.count('corr-exact/%s/%s/%s%s' % (kindc, 'complex' if cplx else 'real', method, '/k1' if k == 1 else ''))
        ctx.case(('corr-exact', kindc, x.tobytes(), v.tobytes(), ev.tobytes(), nfft, method), nontrivial=(k >= 2 or method == 'adapt'),
                 sample={'function': 'pmtm' if kindc == 'pmtm' else 'MultiTapering', 'x': [str(t) for t in x], 'tapers': v.T.tolist(), 'eigenvalues': ev.tolist(),
                         'NFFT': nfft, 'method': method, 'adapt_passes': count})
    return cases, meta


def error_branches(ctx):
    """ValueError branches of pmtm: only one of e, v; neither e, v nor NW"""
    from spectrum.mtm import pmtm
    x = np.array([1.0, 2.0, -1.0, 0.5]); v = np.array([[0.5], [0.5], [0.5], [0.5]]); e = np.array([0.75])
    cases = []; meta = []
    for nm, kw, coq in [('e-only', dict(e=e), '(Some tt) (Some [cz (3,-2) (0,0)]) None'),
                        ('v-only', dict(v=v, NW=1.0), '(Some tt) None (Some [[cz (1,-1) (0,0); cz (1,-1) (0,0); cz (1,-1) (0,0); cz (1,-1) (0,0)]])'),
                        ('no-NW', dict(), 'None None None')]:
        try:
            pmtm(x, NFFT=4, method='unity', **kw)
            raised = False
        except ValueError:
            raised = True
        except Exception:  # noqa
            raised = False
        cases.append('Bool.eqb (pmtm_raises tw4 %s %s) %s' % (czl(x), coq, cbool(raised)))
        meta.append({'kind': 'error-branch', 'which': nm, 'impl_raised_ValueError': raised})
        ctx.case(('error-branch', nm), nontrivial=False); ctx.count('corr-exact/error-branch')
    return cases, meta


# ----------------------------------------------------------------------------- run
def run(ctx):
    rng = ctx.rng
    ctx.check_theorems('Properties/C19.v')
    # the estimate an object holds does not depend on the history that gave it its data and settings (every route of _estimators.via)
    from props import _estimators as E_
    E_.class_route_stream(ctx, ['MultiTapering'], 'routes')

    cases, meta = corr_float(ctx, rng, ctx.q(72, 600))
    for i in ctx.coq_cases('c19_float', PRE_F, cases, shard=ctx.q(8, 12),
                           descr='pmtm (Sk_complex, weights, eigenvalues, adaptive pass count) and MultiTapering.psd vs Model.Mtm at binary64 with the harness twiddle table'):
        ctx.corr_disagreement(meta[i]['kind'] + ':' + meta[i]['method'], i, meta[i])

    cases, meta = corr_exact(ctx, rng, ctx.q(60, 450))
    c2, m2 = error_branches(ctx)
    cases += c2; meta += m2
    # pmtm's default NFFT = max(256, 2 ** nextpow2(N)) for every N = 1..1100 (one boolean)
    from spectrum.tools import nextpow2
    tab = [(N, int(max(256, 2 ** nextpow2(N)))) for N in range(1, 1101)]
    cases.append('forallb (fun p => Nat.eqb (pmtm_default_nfft (fst p)) (snd p)) [%s]%%nat' % '; '.join('(%d, %d)' % t for t in tab))
    meta.append({'kind': 'default-nfft', 'method': None, 'what': 'max(256, 2**nextpow2(N)) for N=1..1100'})
    ctx.case(('default-nfft-table',), nontrivial=False); ctx.count('corr-exact/default-nfft-table')
    for i in ctx.coq_cases('c19_exact', PRE_Q, cases, shard=ctx.q(8, 30),
                           descr='pmtm / MultiTapering with supplied dyadic tapers, NFFT 2 and 4, vs Model.Mtm over the Gaussian rationals; ValueError branches'):
        ctx.corr_disagreement(meta[i]['kind'] + ':' + str(meta[i].get('method')), i, meta[i])

    # ---------------- search on the implementation
    nsearch = ctx.q(90, 2400)
    for it in range(nsearch):
        method = METHODS[it % 3]
        cplx = bool((it // 3) % 2)
        big = (it % 10 == 9)
        N = int(rng.integers(257, 1025)) if big else int(rng.integers(16, 257))
        if it == 0:
            N = 16
        if it == 1:
            N = 1024
        NW = float(rng.choice([1, 1.5, 2, 2.5, 3, 3.5, 4, 5, 6]))
        if NW >= N / 2.0:
            NW = 2.0
        k = int(rng.integers(1, int(2 * NW) + 1))
        if it % 6 in (2, 5) and it % 12 < 6:
            k = 1
        elif it % 11 == 4:
            k = None                                  # dpss default: round(2 NW)
        mode = rng.choice(['ge', 'eq', 'pow2', 'none'])
        if mode == 'ge':
            nfft = int(N + rng.integers(1, max(2, N)))
        elif mode == 'eq':
            nfft = N
        elif mode == 'pow2':
            nfft = int(2 ** int(np.ceil(np.log2(N)))) * int(rng.choice([1, 2]))
        else:
            nfft = None
        style = str(rng.choice(['noise', 'tone', 'twotone', 'int', 'scaled']))
        x = gen_data(rng, N, cplx, style)
        dtype = 'float'
        if style == 'int' and not cplx and it % 2 == 0:
            x = x.astype(np.int64); dtype = 'int64'
        sbf = bool(rng.integers(0, 2)); fs = float(rng.choice([1.0, 2.0, 1024.0, 0.5]))
        tag = ('complex' if cplx else 'real')
        ctx.count('search/%s/%s%s/%s' % (tag, method, '/k1' if k == 1 else ('/k-default' if k is None else ''), 'NFFT=' + mode))
        ctx.case(('search', x.tobytes(), NW, k, nfft, method, sbf, fs), nontrivial=(k is None or k >= 2 or method == 'adapt'),
                 sample={'function': 'pmtm + MultiTapering (search)', 'N': N, 'NW': NW, 'k': k, 'NFFT': nfft, 'method': method, 'data': tag + '/' + style})
        try:
            bad = check_case(x, NW, k, nfft, method, sbf=sbf, fs=fs)
        except Exception as e:  # noqa
            bad = [('check_raises/pmtm/%s/%s' % (tag, method), 'raised %r' % (e,))]
        for key, what in bad:
            ctx.violation(key, what, {'x': vlib.hexv(x), 'complex': cplx, 'dtype': dtype, 'NW': NW, 'k': k, 'NFFT': nfft, 'method': method, 'scale_by_freq': sbf, 'sampling': fs})

    # ---------------- the same object run again after NW / k / method were changed
    for it in range(ctx.q(16, 200)):
        cplx = bool(it % 2); N = int(rng.integers(16, 129))
        x = gen_data(rng, N, cplx, str(rng.choice(['noise', 'tone'])))
        def cfg():
            NW = float(rng.choice([1.5, 2, 2.5, 3, 3.5, 4])); NW = min(NW, N / 2.0 - 1)
            return {'NW': NW, 'k': [None, int(rng.integers(1, int(2 * NW) + 1))][int(rng.integers(0, 2))], 'method': str(rng.choice(METHODS)), 'NFFT': None}
        c1 = cfg(); c2 = cfg()
        if it % 3 == 0:
            c2['k'] = c1['k']; c2['method'] = c1['method']            # only NW changes
            while c2['NW'] == c1['NW']:
                c2['NW'] = float(rng.choice([1.5, 2, 2.5, 3, 3.5, 4]))
            if c2['k'] is not None:
                c2['k'] = c1['k'] = min(c1['k'], int(2 * min(c1['NW'], c2['NW'])))
        c1['NFFT'] = c2['NFFT'] = [None, N + 3, 2 * N][int(rng.integers(0, 3))]
        tag = 'complex' if cplx else 'real'
        ctx.count('search/rerun/%s' % tag); ctx.case(('rerun', x.tobytes(), json.dumps(c1), json.dumps(c2)), nontrivial=True)
        try:
            bad = check_rerun(x, N, c1, c2)
        except Exception as e:  # noqa
            bad = [('class_rerun/MultiTapering/raises', 'raised %r' % (e,))]
        for key, what in bad:
            ctx.violation(key, what, {'kind': 'rerun', 'x': vlib.hexv(x), 'complex': cplx, 'cfg1': c1, 'cfg2': c2})

    # ---------------- k omitted, half-bandwidths whose doubled value is not an integer (2NW rounds up or down)
    for it in range(ctx.q(18, 120)):
        cplx = bool(it % 2); N = int(rng.integers(24, 129))
        x = gen_data(rng, N, cplx, str(rng.choice(['noise', 'tone'])))
        NW = float([1.75, 2.75, 3.3, 3.75, 2.25, 1.4, 2.5, 3.0, 3.2][it % 9]); method = METHODS[it % len(METHODS)]
        nfft = [None, N + 3, 2 * N][int(rng.integers(0, 3))]
        ctx.count('search/default_k/NW=%g' % NW); ctx.case(('default_k', x.tobytes(), NW, nfft, method), nontrivial=True)
        try:
            bad = check_default_k(x, NW, nfft, method)
        except Exception as e:  # noqa
            bad = [('default_k/raises', 'raised %r' % (e,))]
        for key, what in bad:
            ctx.violation(key, what, {'kind': 'default_k', 'x': vlib.hexv(x), 'complex': cplx, 'NW': NW, 'NFFT': nfft, 'method': method})

    # ---------------- results depend on the VALUES given only: call protocol (repeat, aliasing, buffer reuse, memory layout, integer / single-precision dtypes)
    from props import _purity
    _purity.run_protocol(ctx, ['pmtm_eigen', 'pmtm_adapt'])
