"""C10 — Levinson and the Toeplitz/Hermitian solvers solve their equations."""
import numpy as np
import vlib
from props._loopir import loopir_tie, TRUSTED_LINE
from vlib import cz, czl

LEVEL_TEXT = ("Theorems in Coq over an abstract field with conjugation (any order, any lag sequence): the model of "
              "LEVINSON satisfies T_p[1,a]=[P,0..0], P=r0*prod(1-|k|^2), nesting, and raises exactly at a stage with P<=0; "
              "in the abstract ordered *-field a positive-definite r gives P>0, |k|<1 at every order and a stable polynomial, and conversely "
              "(LDL^H reading with the backward predictor) positive stage errors force positive definiteness: with r0>0 LEVINSON returns "
              "iff r is positive definite, so a non-positive-definite r raises unless singularity is allowed; "
              "the models of HERMTOEP and of the general TOEPLITZ return x with T x = z (HERMTOEP fails only at a stage with P<=0). "
              "The hand-written Gallina model is tied to the code by running both on the same exact dyadic inputs "
              "(vm_compute over Gaussian rationals, comparison inside Coq) and a property-directed search on the implementation.")
TRUSTED = ["Coq 8.16.1 kernel + vm_compute (no native_compute)",
           "hand-written model coq/Model/Levinson.v, tied to levinson.py/toeplitz.py by the correspondence run only",
           "CHOLESKY: numpy.linalg.solve / cholesky and scipy.linalg.cholesky / cho_solve are oracles of Model/Cholesky.v; the theorems assume what "
           "the library documents of them (solve_spec, np_chol_spec, sp_chol_spec, cho_solve_spec: a returned factor factors, a returned solution solves); "
           "the dispatch on `method` and the composition of the calls are regenerated from cholesky.py on every run by the fail-closed translator "
           "tools/props/_c10_cholesky.py and proved equal to the model for all arguments; that the libraries meet the specifications is checked by the residual search only",
           "Python harness (snapshot, generators, float->dyadic conversion)"]
TRUSTED = TRUSTED + [TRUSTED_LINE]
LEVEL_TEXT = LEVEL_TEXT + (" CHOLESKY: over a model whose library calls are oracles, every accepted method returns a solution of A X = B given the documented "
              "behaviour of the library routines, exactly three method strings are accepted, and the methods agree on non-singular systems; the dispatch and "
              "call composition are regenerated from the source on every run and proved equal to the model.")
LEVEL_TEXT = LEVEL_TEXT + (" Additionally the hand-written model is tied to the source text: a deep-embedded loop-IR program is regenerated from the Python source of LEVINSON, HERMTOEP, TOEPLITZ, levup, levdown on every run (fail-closed ast translator) and evaluated by the Coq interpreter at the exact instance against the model with zero tolerance (same outcome, every entry equal). For LEVINSON the tie is translation + theorem: coq/Proofs/LoopIRLevinson.v proves, for every input, that the interpreter run on "
           "the generated program returns / raises exactly as the model (complex dtype: unconditionally; float dtype: real-valued r with positive zero lag, allow_singularity=False); "
           "on every run the regenerated program is compared with the one the proof is about (reflexivity inside Coq) - if the source text changed the theorems are not claimed "
           "and the exact evaluation decides.")
UNPROVED = ["that numpy.linalg.cholesky / solve and scipy.linalg.cholesky / cho_solve meet their specifications (oracles of the CHOLESKY model): residual search only",
            ]
ASSUMPTIONS = ["exact arithmetic in the theorems; rounding error of the binary64 code is not bounded by any theorem",
               "inputs of the correspondence run are dyadic rationals with few significant bits"]
RULE = ("autocorrelation sequences of random real/complex low-bit dyadic data (orders 1..8 exact in Coq, up to 40 in the search), "
        "indefinite sequences (clearly indefinite, and moderately perturbed ones classified by the eigenvalues of the leading Toeplitz blocks), "
        "allow_singularity both ways; a case is non-trivial when order >= 2 and the data are not constant; "
        "distinct = distinct (function, input) hashes")

PRE = """Require Import Spectrum.Theory.Ops Spectrum.Theory.Vec Spectrum.Model.Levinson Spectrum.Instances.QcC.
From Coq Require Import QArith Qcanon.
Local Open Scope Z_scope.
Definition lev_case (tol : Qc) (r : list QcC) (order : nat) (allow : bool) (raised : bool) (ia : list QcC) (ip : QcC) (ik : list QcC) : bool :=
  match @levinson _ qcc_ops r order allow with
  | None => raised
  | Some (a, p, k) => negb raised && qcc_close_rel tol (dy 1 0) a ia && qcc_close_rel tol (dy 1 0) [p] [ip] && qcc_close_rel tol (dy 1 0) k ik
  end.
Definition herm_case (tol : Qc) (t0 : QcC) (t z : list QcC) (raised : bool) (ix : list QcC) : bool :=
  match @hermtoep _ qcc_ops t0 t z with
  | None => raised
  | Some x => negb raised && qcc_close_rel tol (dy 1 0) x ix
  end.
Definition toep_case (tol : Qc) (t0 : QcC) (tc tr z : list QcC) (raised : bool) (ix : list QcC) : bool :=
  match @toeplitz _ qcc_ops t0 tc tr z with
  | None => raised
  | Some x => negb raised && qcc_close_rel tol (dy 1 0) x ix
  end.
Definition levup_case (tol : Qc) (a : list QcC) (k e : QcC) (ia : list QcC) (ie : QcC) : bool :=
  let '(a', e') := @levup _ qcc_ops a k e in qcc_close_rel tol (dy 1 0) a' ia && qcc_close_rel tol (dy 1 0) [e'] [ie].
Definition levdown_case (tol : Qc) (a : list QcC) (e : QcC) (ia : list QcC) (ie : QcC) : bool :=
  let '(a', e') := @levdown _ qcc_ops a e in qcc_close_rel tol (dy 1 0) a' ia && qcc_close_rel tol (dy 1 0) [e'] [ie].
"""


tolq = vlib.tolq


def lowbit(rng, n, cplx, bits=3):
    s = 1 << bits
    x = rng.integers(-s, s + 1, size=n).astype(float)
    if cplx:
        x = x + 1j * rng.integers(-s, s + 1, size=n)
    if not np.any(x):
        x[0] = 1
    return x


def acorr_int(x, p):
    """integer-valued (exact) autocorrelation lag sums of integer data"""
    N = len(x)
    return np.array([np.sum(x[k:] * np.conj(x[:N - k])) for k in range(p + 1)])


def toeplitz_matrix(r):
    p = len(r)
    T = np.empty((p, p), dtype=complex)
    for i in range(p):
        for j in range(p):
            T[i, j] = r[i - j] if i >= j else np.conj(r[j - i])
    return T


def pd_verdict(r, margin=1e-6):
    """'pd' / 'indef' / 'ambiguous' for the Hermitian Toeplitz matrix of r (r[0] > 0), decided at the FIRST leading
    block that is not clearly positive definite: there the stage error of the recursion is <= -margin*scale
    (interlacing: |P_m| >= |lambda_min(T_m)| when T_(m-1) is positive definite), so rounding cannot flip its sign."""
    T = toeplitz_matrix(r)
    for m in range(1, len(r) + 1):
        lam = np.linalg.eigvalsh(T[:m, :m])
        scale = max(np.max(np.abs(lam)), 1e-300)
        if lam[0] < margin * scale:
            return 'indef' if lam[0] < -margin * scale else 'ambiguous'
    return 'pd'


def check_levinson_property(r, order, tag):
    """returns list of (key, what) failing clauses for a positive-definite r"""
    from spectrum import LEVINSON
    bad = []
    a, P, k = LEVINSON(r, order)
    T = toeplitz_matrix(r[:order + 1])
    lhs = T @ np.concatenate(([1], a))
    scale = max(1.0, abs(r[0])) * max(1.0, np.max(np.abs(a)) if len(a) else 1.0)
    kappa = abs(r[0]) / abs(P) if P != 0 else np.inf
    tol = 1e-9 * max(1.0, kappa) * scale
    if abs(lhs[0] - P) > tol or (order and np.max(np.abs(lhs[1:])) > tol):
        bad.append(('levinson_solves/LEVINSON/' + tag, 'T_p [1,a] != [P,0..0] (residual %.3g)' % max(abs(lhs[0] - P), np.max(np.abs(lhs[1:])) if order else 0)))
    pp = np.real(r[0]) * np.prod(1 - np.abs(k) ** 2)
    if abs(pp - P) > 1e-9 * max(1.0, kappa) * abs(r[0]):
        bad.append(('levinson_error/LEVINSON/' + tag, 'P != r0*prod(1-|k|^2): %r vs %r' % (P, pp)))
    if not P > 0:
        bad.append(('levinson_pd/LEVINSON/' + tag, 'P <= 0 for a positive-definite sequence'))
    if len(k) and not np.all(np.abs(k) < 1):
        bad.append(('levinson_pd/LEVINSON/' + tag, 'a reflection coefficient has modulus >= 1'))
    if order >= 1 and kappa < 1e6:
        roots = np.roots(np.concatenate(([1], a)))
        if np.any(np.abs(roots) >= 1 + 1e-9):
            bad.append(('levinson_stable/LEVINSON/' + tag, 'root outside the unit disc: max |z| = %.6f' % np.max(np.abs(roots))))
    for q in sorted(set([0, 1, order // 2, order - 1])):
        if 0 <= q <= order and q >= 1:
            _, _, kq = LEVINSON(r, q)
            if len(kq) != q or np.max(np.abs(kq - k[:q])) > 1e-9 * max(1.0, kappa):
                bad.append(('levinson_nested/LEVINSON/' + tag, 'order-%d reflection coefficients are not a prefix of the order-%d ones' % (q, order)))
    return bad


def replay(rep):
    if rep['replay'].get('protocol') == 'values_only':
        from props import _purity
        return _purity.replay_protocol(rep['replay'])
    from spectrum import LEVINSON
    r = rep['replay']
    if r.get('function') == 'LEVINSON':
        rr = vlib.unhexv(r['r']); order = r['order']
        if r.get('real'):
            rr = np.real(rr)
        if r.get('expect') == 'raises':
            try:
                LEVINSON(rr, order)
            except ValueError:
                return True
            return False
        if r.get('expect') == 'returns-pd':
            try:
                _, P, k = LEVINSON(rr, order)
            except ValueError:
                return False
            return bool(P > 0 and np.all(np.abs(k) < 1))
        return not check_levinson_property(rr, order, r.get('tag', 'replay'))
    if r.get('function') == 'scale_free':
        return not check_scale_free(r['which'], vlib.unhexv(r['r']), vlib.unhexv(r['Z']), float.fromhex(r['scale']))
    if r.get('function') in ('HERMTOEP', 'TOEPLITZ', 'CHOLESKY'):
        return solver_residual_ok(r['function'], r)
    return True


def check_scale_free(which, r, Z, sc):
    from spectrum import LEVINSON
    from spectrum.toeplitz import HERMTOEP, TOEPLITZ
    try:
        if which == 'HERMTOEP':
            a = HERMTOEP(float(np.real(r[0])), r[1:], Z); b = HERMTOEP(float(np.real(r[0])) * sc, r[1:] * sc, Z * sc)
            pairs = [(a, b)]
        elif which == 'TOEPLITZ':
            TR = np.conj(r[1:]) * 0.5
            a = TOEPLITZ(complex(np.real(r[0]) * 2), r[1:], TR, Z); b = TOEPLITZ(complex(np.real(r[0]) * 2) * sc, r[1:] * sc, TR * sc, Z * sc)
            pairs = [(a, b)]
        else:
            a1, P1, k1 = LEVINSON(r, len(r) - 1); a2, P2, k2 = LEVINSON(r * sc, len(r) - 1)
            pairs = [(a1, a2), (k1, k2), (np.array([P1 * sc]), np.array([P2]))]
    except Exception as e:
        return [('scale_free/%s' % which, '%s raised %r on a well-conditioned system scaled by %g' % (which, e, sc))]
    for u, v in pairs:
        u = np.asarray(u); v = np.asarray(v)
        if u.shape != v.shape or np.max(np.abs(u - v)) > 1e-7 * max(np.max(np.abs(u)), 1e-300):
            return [('scale_free/%s' % which, '%s: the solution of the system scaled by %g differs from the solution of the original one' % (which, sc))]
    return []


def solver_residual_ok(fn, r):
    from spectrum.toeplitz import HERMTOEP, TOEPLITZ
    from spectrum import CHOLESKY
    if fn == 'HERMTOEP':
        T0 = float.fromhex(r['T0']); T = vlib.unhexv(r['T']); Z = as_kind(vlib.unhexv(r['Z']), r.get('Zkind'))
        if r.get('Tkind') == 'real':
            T = np.real(T).astype(float)
        X = HERMTOEP(T0, T, Z); M = toeplitz_matrix(np.concatenate(([T0], T)))
        return np.max(np.abs(M @ X - Z)) <= 1e-8 * np.linalg.cond(M) * max(1, np.max(np.abs(Z)))
    if fn == 'TOEPLITZ':
        T0 = complex(*[float.fromhex(t) for t in r['T0']]); TC = vlib.unhexv(r['TC']); TR = vlib.unhexv(r['TR']); Z = as_kind(vlib.unhexv(r['Z']), r.get('Zkind'))
        X = TOEPLITZ(T0, TC, TR, Z); M = gen_toeplitz(T0, TC, TR)
        return np.max(np.abs(M @ X - Z)) <= 1e-8 * np.linalg.cond(M) * max(1, np.max(np.abs(Z)))
    if fn == 'CHOLESKY':
        A = vlib.unhexv(r['A']).reshape(r['n'], r['n']); B = as_kind(vlib.unhexv(r['B']), r.get('Zkind'))
        X = CHOLESKY(A, B, method=r['method'])
        return np.max(np.abs(A @ X - B)) <= 1e-8 * np.linalg.cond(A) * max(1, np.max(np.abs(B)))
    return True


def as_kind(Z, kind):
    """the right-hand side with the dtype it had when the case was generated"""
    if kind == 'real':
        return np.real(Z).astype(float)
    if kind == 'int':
        return np.real(Z).round().astype(int)
    return Z


def gen_toeplitz(T0, TC, TR):
    M = len(TC) + 1
    A = np.empty((M, M), dtype=complex)
    for i in range(M):
        for j in range(M):
            A[i, j] = T0 if i == j else (TC[i - j - 1] if i > j else TR[j - i - 1])
    return A


def run(ctx):
    from spectrum import LEVINSON, CHOLESKY
    from spectrum.levinson import levup, levdown
    from spectrum.toeplitz import HERMTOEP, TOEPLITZ
    rng = ctx.rng
    ctx.check_theorems('Properties/C10.v')
    loopir_tie(ctx, ['LEVINSON', 'HERMTOEP', 'TOEPLITZ', 'levup', 'levdown'])      # IR programs regenerated from the source vs the model: exact, zero tolerance

    # ---------------- CHOLESKY: dispatch + composition of library calls regenerated from cholesky.py, proved equal to Model/Cholesky.v
    import os
    from props import _c10_cholesky as CH
    srcdir = os.path.join(vlib.SNAP, 'src', 'spectrum')
    try:
        wrong = CH.selftest(srcdir)
        if wrong:
            ctx.broken.append({'theorem': 'cholesky translator self-test (fail-closed behaviour)', 'where': '_c10_cholesky.py', 'log': '; '.join(wrong)})
        ctx.check_generated('C10_cholesky', CH.generate(srcdir), CH.GEN_NAMES)
    except CH.Fail as e:
        for nm in CH.GEN_NAMES:
            ctx.obligations.append((nm, False, []))
        ctx.broken.append({'theorem': 'translator: cholesky.py outside the recognised shapes (%s)' % e, 'where': srcdir, 'log': str(e)})

    # ---------------- correspondence: LEVINSON
    cases = []; meta = []
    n = ctx.q(160, 1200)
    tries = 0
    while len(cases) < n and tries < 20 * n:
        tries += 1
        cplx = bool(rng.integers(0, 2)); p = int(rng.integers(1, 9)); N = p + int(rng.integers(2, 14))
        kind = rng.choice(['acorr', 'acorr', 'acorr', 'indef', 'allow'])
        x = lowbit(rng, N, cplx)
        r = acorr_int(x, p)
        allow = False
        if kind != 'acorr':
            j = int(rng.integers(1, p + 1)); r = r.copy(); r[j] = r[j] + (3 + rng.integers(0, 3)) * np.real(r[0])
            allow = (kind == 'allow')
        if not cplx:
            r = np.real(r)
        raised = False
        try:
            a, P, k = LEVINSON(r, p, allow_singularity=allow)
        except ValueError:
            raised = True; a = []; P = 0; k = []
        if not raised:
            kap = max(1.0, abs(r[0]) / max(abs(P), 1e-300))
            if kind == 'allow':
                kap = max([kap] + [1 / abs(1 - abs(t) ** 2) for t in k if abs(t) != 1] + [np.max(np.abs(a)) if len(a) else 1])
            if kap > 1e4 or not np.all(np.isfinite(a)):
                ctx.count('levinson_regenerated_illconditioned'); continue
            tol = 1e-9 * kap
        else:
            tol = 1e-9
        cases.append('lev_case %s %s %d%%nat %s %s %s %s %s' % (tolq(tol), czl(r), p, 'true' if allow else 'false',
                     'true' if raised else 'false', czl(a), cz(P), czl(k)))
        meta.append({'function': 'LEVINSON', 'r': vlib.hexv(r), 'order': p, 'allow_singularity': allow, 'impl_raised': raised})
        ctx.count('LEVINSON/%s/%s/%s' % ('complex' if cplx else 'real', kind, 'raised' if raised else 'returned'))
        ctx.case(('LEVINSON', r.tobytes(), p, allow), nontrivial=(p >= 2), sample={'function': 'LEVINSON', 'r': [str(t) for t in r], 'order': p, 'allow_singularity': allow, 'raised': raised})
    for i in ctx.coq_cases('c10_levinson', PRE, cases, descr='LEVINSON vs Model.Levinson.levinson at QcC'):
        ctx.corr_disagreement('LEVINSON', i, meta[i])

    # ---------------- correspondence: HERMTOEP, TOEPLITZ, levup/levdown
    cases = []; meta = []
    for _ in range(ctx.q(60, 400)):
        p = int(rng.integers(1, 7)); N = p + int(rng.integers(3, 12))
        x = lowbit(rng, N, True); r = acorr_int(x, p)
        if rng.integers(0, 5) == 0:
            r = r.copy(); r[1] += 4 * np.real(r[0])
        Z = lowbit(rng, p + 1, True)
        raised = False
        try:
            X = HERMTOEP(np.real(r[0]), r[1:], Z)
        except ValueError:
            raised = True; X = []
        if not raised:
            kap = np.linalg.cond(toeplitz_matrix(r))
            if kap > 1e4:
                ctx.count('hermtoep_regenerated_illconditioned'); continue
        else:
            kap = 1
        cases.append('herm_case %s %s %s %s %s %s' % (tolq(1e-9 * kap), cz(np.real(r[0])), czl(r[1:]), czl(Z), 'true' if raised else 'false', czl(X)))
        meta.append({'function': 'HERMTOEP', 'T0': float(np.real(r[0])).hex(), 'T': vlib.hexv(r[1:]), 'Z': vlib.hexv(Z)})
        ctx.count('HERMTOEP/%s' % ('raised' if raised else 'returned'))
        ctx.case(('HERMTOEP', r.tobytes(), Z.tobytes()), nontrivial=(p >= 2))
    for _ in range(ctx.q(60, 400)):
        p = int(rng.integers(1, 6))
        T0 = complex(8 + rng.integers(0, 8)); TC = lowbit(rng, p, True, bits=2); TR = lowbit(rng, p, True, bits=2)
        if rng.integers(0, 3) == 0:
            TR = np.conj(TC)
        Z = lowbit(rng, p + 1, True)
        raised = False
        try:
            X = TOEPLITZ(T0, TC, TR, Z)
        except ValueError:
            raised = True; X = []
        if not raised:
            kap = np.linalg.cond(gen_toeplitz(T0, TC, TR))
            if kap > 1e4 or not np.all(np.isfinite(X)):
                ctx.count('toeplitz_regenerated_illconditioned'); continue
        else:
            kap = 1
        cases.append('toep_case %s %s %s %s %s %s %s' % (tolq(1e-9 * kap), cz(T0), czl(TC), czl(TR), czl(Z), 'true' if raised else 'false', czl(X)))
        meta.append({'function': 'TOEPLITZ', 'T0': [T0.real.hex(), T0.imag.hex()], 'TC': vlib.hexv(TC), 'TR': vlib.hexv(TR), 'Z': vlib.hexv(Z)})
        ctx.count('TOEPLITZ/%s' % ('raised' if raised else 'returned'))
        ctx.case(('TOEPLITZ', TC.tobytes(), TR.tobytes(), Z.tobytes()), nontrivial=(p >= 2))
    for _ in range(ctx.q(40, 300)):
        p = int(rng.integers(1, 7))
        ks = (rng.integers(-6, 7, size=p) + 1j * rng.integers(-6, 7, size=p)) / 16.0
        a = np.array([1.0 + 0j])
        for t in ks:
            a, _ = levup(a, t)
        a = np.array([complex(round(t.real * 256) / 256, round(t.imag * 256) / 256) for t in a]); a[0] = 1
        knew = complex(rng.integers(-6, 7), rng.integers(-6, 7)) / 16.0
        e = float(rng.integers(1, 16)) / 4
        an, en = levup(a, knew, e)
        cases.append('levup_case %s %s %s %s %s %s' % (tolq(1e-10), czl(a), cz(knew), cz(e), czl(an), cz(en)))
        meta.append({'function': 'levup', 'a': vlib.hexv(a), 'k': str(knew), 'e': e})
        ctx.case(('levup', a.tobytes(), knew, e), nontrivial=(p >= 2))
        if abs(a[-1]) < 0.9:
            ad, ed = levdown(a, e)
            kap = 1 / (1 - abs(a[-1]) ** 2)
            cases.append('levdown_case %s %s %s %s %s' % (tolq(1e-10 * kap * max(1, np.max(np.abs(ad)))), czl(a), cz(e), czl(ad), cz(ed)))
            meta.append({'function': 'levdown', 'a': vlib.hexv(a), 'e': e})
            ctx.case(('levdown', a.tobytes(), e), nontrivial=(p >= 2))
        ctx.count('levup_levdown')
    for i in ctx.coq_cases('c10_solvers', PRE, cases, descr='HERMTOEP, TOEPLITZ, levup, levdown vs the model at QcC'):
        ctx.corr_disagreement(meta[i]['function'], i, meta[i])

    # ---------------- property-directed search on the implementation
    for it in range(ctx.q(150, 1500)):
        cplx = bool(rng.integers(0, 2)); p = int(rng.integers(1, ctx.q(20, 40))); N = p + int(rng.integers(2, 60))
        style = rng.choice(['noise', 'tone', 'int', 'big'])
        if style == 'noise':
            x = rng.standard_normal(N) + (1j * rng.standard_normal(N) if cplx else 0)
        elif style == 'tone':
            t = np.arange(N); f = rng.uniform(0.05, 0.45)
            x = (np.exp(2j * np.pi * f * t) if cplx else np.cos(2 * np.pi * f * t)) + 0.3 * (rng.standard_normal(N) + (1j * rng.standard_normal(N) if cplx else 0))
        elif style == 'int':
            x = lowbit(rng, N, cplx, bits=5)
        else:
            x = (rng.standard_normal(N) + (1j * rng.standard_normal(N) if cplx else 0)) * 10.0 ** rng.integers(-6, 7)
        r = np.array([np.sum(x[k:] * np.conj(x[:N - k])) / N for k in range(p + 1)])
        if not cplx:
            r = np.real(r)
        tag = 'complex' if cplx else 'real'
        ctx.count('search/LEVINSON/%s/%s' % (tag, style))
        ctx.case(('search-lev', r.tobytes(), p), nontrivial=(p >= 2), sample={'function': 'LEVINSON (search)', 'order': p, 'N': N, 'kind': tag + '/' + style})
        try:
            bad = check_levinson_property(r, p, tag)
        except ValueError as e:
            bad = [('levinson_pd/LEVINSON/' + tag, 'raised %r on a positive-definite biased autocorrelation' % e)]
        for key, what in bad:
            ctx.violation(key, what, {'function': 'LEVINSON', 'r': vlib.hexv(r), 'order': p, 'tag': tag})
        # clearly indefinite: must raise unless singularity is allowed
        r2 = r.copy(); j = int(rng.integers(1, p + 1)); r2[j] = 3 * np.real(r[0])
        try:
            LEVINSON(r2, p)
            ctx.violation('levinson_raises/LEVINSON/' + tag, 'no exception for an indefinite sequence (|r[%d]| > r[0])' % j,
                          {'function': 'LEVINSON', 'r': vlib.hexv(r2), 'order': p, 'expect': 'raises'})
        except ValueError:
            pass
        try:
            LEVINSON(r2, p, allow_singularity=True)
        except ValueError:
            ctx.violation('levinson_allow/LEVINSON/' + tag, 'raised although allow_singularity=True', {'function': 'LEVINSON', 'r': vlib.hexv(r2), 'order': p, 'expect': 'returns'})
        ctx.case(('search-lev-indef', r2.tobytes(), p), nontrivial=(p >= 2))
        # levinson_returns_iff_pd: with r0 > 0 the recursion returns exactly on positive-definite sequences.  One lag is
        # perturbed moderately; the oracle is the spectrum of the leading Toeplitz blocks (independent of the recursion).
        r3 = r.copy(); j = int(rng.integers(1, p + 1))
        d = rng.uniform(-1.3, 1.3) * np.real(r[0])
        r3[j] = r3[j] + (d * np.exp(2j * np.pi * rng.uniform()) if cplx else d)
        verdict = pd_verdict(r3)
        ctx.count('search/LEVINSON/iff-pd/' + verdict)
        ctx.case(('search-lev-iffpd', r3.tobytes(), p), nontrivial=(p >= 2))
        if verdict == 'pd':
            try:
                _, P3, k3 = LEVINSON(r3, p)
                if not (P3 > 0 and np.all(np.abs(k3) < 1)):
                    ctx.violation('levinson_pd/LEVINSON/' + tag, 'P <= 0 or |k| >= 1 on a positive-definite sequence (eigenvalues of every leading block > 0)',
                                  {'function': 'LEVINSON', 'r': vlib.hexv(r3), 'order': p, 'expect': 'returns-pd'})
            except ValueError as e:
                ctx.violation('levinson_pd/LEVINSON/' + tag, 'raised %r on a positive-definite sequence (eigenvalues of every leading block > 0)' % e,
                              {'function': 'LEVINSON', 'r': vlib.hexv(r3), 'order': p, 'expect': 'returns-pd'})
        elif verdict == 'indef':
            try:
                LEVINSON(r3, p)
                ctx.violation('levinson_raises/LEVINSON/' + tag, 'no exception for a sequence that is not positive definite (a leading Toeplitz block has a negative eigenvalue)',
                              {'function': 'LEVINSON', 'r': vlib.hexv(r3), 'order': p, 'expect': 'raises'})
            except ValueError:
                pass
        # sequences with a NON-POSITIVE zero lag: the negated (negative definite) sequence, and the same with the zero lag alone negated;
        # both have a first leading block (r0) that is negative, so they are not positive definite: must raise unless singularity is allowed
        for nm, r5 in (('negated', -np.asarray(r)), ('zero_lag_negated', np.concatenate(([-np.real(r[0])], np.asarray(r)[1:])))):
            if pd_verdict(r5) != 'indef':
                continue
            ctx.case(('search-lev-' + nm, r5.tobytes(), p), nontrivial=(p >= 2))
            ctx.count('search/LEVINSON/%s/%s' % (nm, tag))
            try:
                _, P5, _k5 = LEVINSON(r5, p)
                ctx.violation('levinson_raises/LEVINSON/%s/%s' % (nm, tag), 'no exception for a sequence with negative zero lag (%s positive-definite sequence; returned P=%r)' % (nm, P5),
                              {'function': 'LEVINSON', 'r': vlib.hexv(r5), 'order': p, 'expect': 'raises', 'real': not cplx})
            except ValueError:
                pass
    # solvers: residuals
    for it in range(ctx.q(120, 1000)):
        p = int(rng.integers(1, ctx.q(12, 30))); N = p + int(rng.integers(4, 40))
        x = rng.standard_normal(N) + 1j * rng.standard_normal(N)
        r = np.array([np.sum(x[k:] * np.conj(x[:N - k])) / N for k in range(p + 1)]); r[0] = np.real(r[0]) * 1.05
        tkind = 'complex'
        if it % 3 == 2:
            # real symmetric systems given as REAL-dtype arrays (the solvers allocate by dtype)
            xr = np.real(x); r = np.array([np.sum(xr[k:] * xr[:N - k]) / N for k in range(p + 1)]); r[0] = r[0] * 1.05; tkind = 'real'
        if it % 4 == 1 and p >= 2:
            # structured positive-definite systems whose recursions meet EXACT zeros (white, even lags only, geometric, one lag)
            from props._loopir import structured_acorr
            r = structured_acorr(rng, p); ctx.count('search/structured-system'); tkind = 'complex'
        zk = str(rng.choice(['complex', 'complex', 'real', 'int']))
        if zk == 'complex':
            Z = rng.standard_normal(p + 1) + 1j * rng.standard_normal(p + 1)
        elif zk == 'real':
            Z = rng.standard_normal(p + 1)
        else:
            Z = rng.integers(-5, 6, size=p + 1); Z[0] = 1
        ctx.count('search/rhs-dtype/' + zk)
        rep = {'function': 'HERMTOEP', 'T0': float(np.real(r[0])).hex(), 'T': vlib.hexv(r[1:]), 'Z': vlib.hexv(Z), 'Zkind': zk, 'Tkind': tkind}
        ctx.count('search/HERMTOEP/T-dtype-' + tkind)
        ctx.case(('search-herm', r.tobytes(), Z.tobytes()), nontrivial=(p >= 2)); ctx.count('search/HERMTOEP')
        try:
            if not solver_residual_ok('HERMTOEP', rep):
                ctx.violation('solves/HERMTOEP', 'T x != z for a Hermitian positive-definite Toeplitz system', rep)
        except Exception as e:
            ctx.violation('solves/HERMTOEP', 'raised %r on an admissible system' % e, rep)
        TC = r[1:] * 0.7; TR = 0.5 * (rng.standard_normal(p) + 1j * rng.standard_normal(p)) * abs(r[0]) / (p + 1)
        T0 = complex(np.real(r[0]) * 2)
        # structured relations between first row, first column and diagonal (the general solver must not assume more than it is given):
        # Hermitian off-diagonals with a COMPLEX diagonal (a shifted Hermitian matrix), symmetric, Hermitian, triangular
        rel = ['free', 'conj+complex-diagonal', 'equal+complex-diagonal', 'conj', 'zero-row', 'free+complex-diagonal'][it % 6]
        if rel.startswith('conj'):
            TR = np.conj(TC)
        elif rel.startswith('equal'):
            TR = TC.copy()
        elif rel == 'zero-row':
            TR = np.zeros(p, dtype=complex)
        if rel.endswith('complex-diagonal'):
            T0 = T0 * (1 + 0.5j)
        ctx.count('search/TOEPLITZ/' + rel)
        M = gen_toeplitz(T0, TC, TR)
        if np.linalg.cond(M) < 1e4:
            rep = {'function': 'TOEPLITZ', 'T0': [T0.real.hex(), T0.imag.hex()], 'TC': vlib.hexv(TC), 'TR': vlib.hexv(TR), 'Z': vlib.hexv(Z), 'Zkind': zk}
            ctx.case(('search-toep', TC.tobytes(), TR.tobytes(), Z.tobytes()), nontrivial=(p >= 2)); ctx.count('search/TOEPLITZ')
            try:
                if not solver_residual_ok('TOEPLITZ', rep):
                    ctx.violation('solves/TOEPLITZ', 'T x != z for a well-conditioned Toeplitz system', rep)
            except ValueError:
                ctx.count('search/TOEPLITZ/raised-singular-leading-minor')
        A = toeplitz_matrix(r) + np.diag(rng.uniform(0, 0.2, size=p + 1))
        for method in ('scipy', 'numpy', 'numpy_solver'):
            rep = {'function': 'CHOLESKY', 'A': vlib.hexv(A), 'n': p + 1, 'B': vlib.hexv(Z), 'method': method, 'Zkind': zk}
            ctx.case(('search-chol', A.tobytes(), Z.tobytes(), method), nontrivial=(p >= 2)); ctx.count('search/CHOLESKY/' + method)
            try:
                if not solver_residual_ok('CHOLESKY', rep):
                    ctx.violation('solves/CHOLESKY/' + method, 'A x != b for a Hermitian positive-definite system', rep)
            except Exception as e:
                ctx.violation('solves/CHOLESKY/' + method, 'raised %r on an admissible system' % e, rep)

    # ---------------- the solvers are scale free: tiny or huge systems (same condition number) are solved alike
    for it in range(ctx.q(40, 400)):
        p = int(rng.integers(1, 9)); N = p + int(rng.integers(4, 30))
        x = rng.standard_normal(N) + 1j * rng.standard_normal(N)
        r = np.array([np.sum(x[k:] * np.conj(x[:N - k])) / N for k in range(p + 1)]); r[0] = np.real(r[0]) * 1.05
        Z = rng.standard_normal(p + 1) + 1j * rng.standard_normal(p + 1)
        sc = 10.0 ** int(rng.integers(-18, 9))
        which = ['HERMTOEP', 'TOEPLITZ', 'LEVINSON'][it % 3]
        ctx.count('search/scale-free/%s' % which); ctx.case(('scale-free', which, r.tobytes(), Z.tobytes(), sc), nontrivial=(p >= 2))
        rep = {'function': 'scale_free', 'which': which, 'r': vlib.hexv(r), 'Z': vlib.hexv(Z), 'scale': float(sc).hex()}
        for key, what in check_scale_free(which, r, Z, sc):
            ctx.violation(key, what, rep)

    # ---------------- results depend on the VALUES given only: call protocol (repeat, aliasing, buffer reuse, memory layout, integer / single-precision dtypes)
    from props import _purity
    _purity.run_protocol(ctx, ['LEVINSON', 'HERMTOEP', 'TOEPLITZ'])
