"""C01 — Periodogram equals the windowed-DFT definition and conserves power (Parseval, Wiener-Khinchin)."""
import cmath
import math
import numpy as np
import vlib
from vlib import fl, fc, fcl, fll, cz, czl, tolq

LEVEL_TEXT = ("Coq theorems over an abstract field with conjugation and an abstract twiddle character (every N>=1, every NFFT>=N, "
              "every window vector, both parities): the model of speriodogram returns nrm2(DFT_NFFT(x.*w)[k])/N at each of its "
              "NFFT/2+1 (real) or NFFT (complex) bins, its bins sum to NFFT*sum|x w|^2/N (Parseval), 2-D input is the column-wise "
              "1-D result, the Periodogram class stores the function's value after any sequence of calls/reads/window changes, and "
              "the model of CORRELOGRAMPSD (rectangular window, lag N-1, biased, NFFT>=2N-1, both correlation back ends) equals the "
              "complex periodogram bin by bin (Wiener-Khinchin; general Blackman-Tukey layout lemma for NFFT>=2*lag+1; closed form of the "
              "buffer for overlapping layouts; exact error branch). The __call__/psd-setter pipeline record is re-extracted from the source "
              "by a fail-closed ast translator on every run and re-proved equal to the class model. "
              "Tie: the same Gallina terms are run at binary64 pairs with a harness-supplied twiddle table (every NFFT<=32/64, all 29 "
              "windows whose samples are taken from the implementation) and exactly at Gaussian rationals for NFFT in {1,2,4}; "
              "a search with an independent O(N*NFFT) DFT oracle evaluates every clause on the implementation.")
TRUSTED = ["loop-IR tie (tools/props/_loopir.py + coq/Model/LoopIR.v, trusted as the semantics of the accepted Python/numpy fragment): CORRELOGRAMPSD (correlation_method='CORRELATION' embedded, xcorr an oracle) and the 1-D path of speriodogram are regenerated from the source on every run; numpy.fft.fft/rfft = the DFT specification over a hidden twiddle parameter; Window(N, name).data, numpy.pi, pylab_rms_flat are oracle inputs; the run equals the hand models exactly at QcC (tw1/tw2/tw4) and at binary64 (speriodogram bit for bit)", "Coq 8.16.1 kernel + vm_compute (PrimFloat only in the correspondence run, never under a theorem)",
           "hand-written model coq/Model/Periodogram.v (+ Model/Corr.v), tied to periodogram.py / correlog.py / psd.py by the correspondence run only",
           "numpy.fft.fft/rfft modelled as the DFT sum over a twiddle character (Theory/Dft.v), scipy.signal.correlate as the lag sums: specifications, not verified",
           "window samples are inputs of the model (Window(N,name).data of the snapshot); their own correctness is C20",
           "tools/props/_c01_pipeline.py: fail-closed ast extraction of the __call__/psd-setter pipeline record and statement-by-statement comparison of psd getter, scale, df, window setter with the modelled snippets",
           "Python harness (snapshot, generators, float literal writer, cmath DFT oracle)"]
UNPROVED = ["every clause of the statement is proved about the model; not covered by any theorem: rounding error of the binary64 code",
            "the overlapping layout NFFT < 2*lag+1 and the error branches of CORRELOGRAMPSD are modelled and tied by correspondence only",
            "WelchPeriodogram / DaniellPeriodogram / pcorrelogram class pipeline: out of scope of C01",
            "window values themselves (C20): a NaN window sample makes every bin NaN; reported by the search as a violation of the definition clause"]
ASSUMPTIONS = ["exact arithmetic in the theorems", "N >= 1 and NFFT >= N (NFFT >= 2N-1 for Wiener-Khinchin), as in the property statement",
               "W-K needs N invertible in the field (ofnat N <> 0; automatic in an ordered field, stated as wiener_khinchin_ord)"]
RULE = ("1-D: every window name x every N in 1..33, every NFFT up to 32 (quick) / 64 (thorough) real and complex, NFFT even/odd/prime/2^k, "
        "data constant / integer / dynamic range 2^+-20 / random, detrend and scale_by_freq flag values, NFFT=None and NFFT<N; basis and "
        "polarisation vectors (complete for the quadratic form at those sizes); 2-D with 1-4 columns and non-constant windows; class "
        "histories of call/read/window-change; CORRELOGRAMPSD over lags, norms, back ends, overlapping layouts and raising inputs; "
        "a case is non-trivial when N >= 2 and the data are not all equal; distinct = distinct (function, input) hashes")

NMAX = 64

# ----------------------------------------------------------------------------- Coq preambles
PRE_F = """Require Import Spectrum.Theory.Ops Spectrum.Theory.Vec Spectrum.Theory.Dft Spectrum.Model.Corr Spectrum.Model.Periodogram
               Spectrum.Instances.FloatC Spectrum.Instances.FloatTw Spectrum.Instances.QcC.
From Coq Require Import PrimFloat ZArith List.
Import ListNotations.
Local Open Scope float_scope.
Definition R2C (l : list float) : list FloatC := map (fun a => (a, 0)) l.
Definition per_case (tol floor : float) (tbl : list FloatC) (twopi : float) (x : list FloatC) (w : list float) (nfft : option nat)
    (isreal : bool) (dt sbf : pyval) (fs : float) (impl : list float) : bool :=
  fc_close_rel tol floor (@speriodogram _ fc_ops (tw_table tbl) (twopi, 0) x (R2C w) nfft isreal dt sbf (fs, 0)) (R2C impl).
Definition per2d_case (tol floor : float) (tbl : list FloatC) (twopi : float) (X : list (list FloatC)) (c : nat) (w : list float)
    (nfft : option nat) (isreal : bool) (dt sbf : pyval) (fs : float) (impl : list (list float)) : bool :=
  let m := @speriodogram2d _ fc_ops (tw_table tbl) (twopi, 0) X c (R2C w) nfft isreal dt sbf (fs, 0) in
  Nat.eqb (length m) (length impl) && forallb (fun r => Nat.eqb (length r) c) m && forallb (fun r => Nat.eqb (length r) c) impl
  && fc_close_rel tol floor (concat m) (R2C (concat impl)).
Definition mkop (o : nat * list float) : @pop FloatC := match o with (O, _) => OpCall | (S O, _) => OpRead | (S (S k), w) => OpWindow k (R2C w) end.
Definition cls_case (tol floor : float) (tbl : list FloatC) (twopi : float) (x : list FloatC) (isreal : bool) (wn : nat) (w : list float)
    (fs : float) (a : nfft_arg) (dt sbf : pyval) (ops : list (nat * list float)) (infft irange : nat) (impl : list float) : bool :=
  let s := fold_left (@p_step _ fc_ops (tw_table tbl) (twopi, 0)) (map mkop ops) (@p_init _ x isreal wn (R2C w) (fs, 0) a dt sbf) in
  Nat.eqb (p_NFFT s) infft && Nat.eqb (p_rangeN s) irange &&
  match p_psd s with Some p => fc_close_rel tol floor p (R2C impl) | None => false end.
Definition cor_case (tol floor : float) (tbl : list FloatC) (rp : float) (x : list FloatC) (y : option (list FloatC)) (lag : nat)
    (wfull : list float) (nfft : option nat) (nm : cnorm) (be : backend) (raised : bool) (impl : list float) : bool :=
  match @correlogram _ fc_ops (tw_table tbl) (rp, 0) x y lag (R2C wfull) nfft nm be with
  | None => raised
  | Some p => negb raised && fc_close_rel tol floor p (R2C impl)
  end.
"""

PRE_Q = """Require Import Spectrum.Theory.Ops Spectrum.Theory.Vec Spectrum.Theory.Dft Spectrum.Model.Corr Spectrum.Model.Periodogram
               Spectrum.Instances.QcC Spectrum.Instances.QcCTw.
From Coq Require Import QArith Qcanon ZArith List.
Import ListNotations.
Local Open Scope Z_scope.
Definition twq (n : nat) : Z -> QcC := match n with 1%nat => tw1 | 2%nat => tw2 | _ => tw4 end.
Definition qper_case (tol floor : Qc) (n : nat) (twopi : QcC) (x w : list QcC) (nfft : option nat) (isreal : bool) (dt sbf : pyval)
    (fs : QcC) (impl : list QcC) : bool :=
  qcc_close_rel tol floor (@speriodogram _ qcc_ops (twq n) twopi x w nfft isreal dt sbf fs) impl.
Definition qper2d_case (tol floor : Qc) (n : nat) (twopi : QcC) (X : list (list QcC)) (c : nat) (w : list QcC) (nfft : option nat)
    (isreal : bool) (dt sbf : pyval) (fs : QcC) (impl : list QcC) : bool :=
  qcc_close_rel tol floor (concat (@speriodogram2d _ qcc_ops (twq n) twopi X c w nfft isreal dt sbf fs)) impl.
Definition qcor_case (tol floor : Qc) (n : nat) (rp : QcC) (x : list QcC) (y : option (list QcC)) (lag : nat) (wfull : list QcC)
    (nfft : option nat) (nm : cnorm) (be : backend) (raised : bool) (impl : list QcC) : bool :=
  match @correlogram _ qcc_ops (twq n) rp x y lag wfull nfft nm be with
  | None => raised
  | Some p => negb raised && qcc_close_rel tol floor p impl
  end.
Definition qcls_case (tol floor : Qc) (n : nat) (twopi : QcC) (x : list QcC) (isreal : bool) (w : list QcC) (fs : QcC) (a : nfft_arg)
    (dt sbf : pyval) (ncalls : nat) (infft : nat) (impl : list QcC) : bool :=
  let s := fold_left (@p_step _ qcc_ops (twq n) twopi) (repeat OpCall ncalls) (@p_init _ x isreal 0%nat w fs a dt sbf) in
  Nat.eqb (p_NFFT s) infft && match p_psd s with Some p => qcc_close_rel tol floor p impl | None => false end.
"""

_TW = {}


def twtab(n):
    """exp(-2 pi i j / n), j < n, by cmath (the oracle's and the float model's twiddles)"""
    if n not in _TW:
        _TW[n] = [cmath.exp(-2j * math.pi * j / n) for j in range(n)]
    return _TW[n]


def pre_float():
    lines = [PRE_F]
    for n in range(1, NMAX + 1):
        lines.append('Definition T%d : list FloatC := %s.' % (n, fcl(twtab(n))))
    return '\n'.join(lines)


# ----------------------------------------------------------------------------- helpers
def window_list():
    from spectrum.window import window_names
    return sorted(window_names.keys())


def win(N, name):
    """the samples of the named window at its DEFAULT shape parameters, from the window's own function (not through the factory's
    routing tables, which the estimators themselves use: state left there by an earlier call must not hide in the oracle)"""
    from spectrum import window as W
    fn = getattr(W, W.window_names[name], None) if name in getattr(W, 'window_names', {}) else None
    if fn is None:
        return np.asarray(W.Window(N, name).data, dtype=float)
    return np.asarray(fn(N), dtype=float)


PARAMETRISED = {'kaiser': {'beta': 2.0}, 'blackman': {'alpha': 0.3}, 'gaussian': {'alpha': 5.0}, 'chebwin': {'attenuation': 80}, 'tukey': {'r': 0.1},
                'flattop': {'mode': 'periodic'}, 'taylor': {'nbar': 6, 'sll': -50}, 'poisson': {'alpha': 4}, 'poisson_hanning': {'alpha': 4}, 'cauchy': {'alpha': 5}}


def earlier_parametrised_calls():
    """process history: every parametrised window family is requested ONCE with non-default shape parameters before the streams start (through the
    factory, the Window class and the correlogram's window_params); a later request WITHOUT parameters must still mean the default shape"""
    from spectrum import window as W
    from spectrum import CORRELOGRAMPSD
    for name, kw in PARAMETRISED.items():
        for call in (lambda: W.create_window(16, name, **kw), lambda: W.Window(17, name, **kw)):
            try:
                call()
            except Exception:
                pass
    try:
        CORRELOGRAMPSD(np.arange(12.0), lag=4, NFFT=16, window='kaiser', window_params={'beta': 2.0})
    except Exception:
        pass


def is_prime(n):
    return n >= 2 and all(n % d for d in range(2, int(n ** 0.5) + 1))


def nfft_category(n):
    cats = ['even' if n % 2 == 0 else 'odd']
    if is_prime(n):
        cats.append('prime')
    if n & (n - 1) == 0:
        cats.append('pow2')
    return cats


def pick_nfft(rng, lo, hi, cat=None):
    """an NFFT in [lo, hi] of the requested category (even/odd/prime/pow2), any if impossible"""
    cand = [n for n in range(lo, hi + 1) if cat is None or cat in nfft_category(n)]
    if not cand:
        cand = list(range(lo, hi + 1))
    return int(cand[int(rng.integers(0, len(cand)))])


KINDS = ['const', 'int', 'dyn', 'rand']


def gen_data(rng, N, cplx, kind):
    if kind == 'const':
        c = float(rng.integers(1, 9)) * rng.choice([-1.0, 1.0]) / 4
        x = np.full(N, c, dtype=float)
        if cplx:
            x = x + 1j * float(rng.integers(-8, 9)) / 4
    elif kind == 'int':
        x = rng.integers(-9, 10, size=N).astype(float)
        if cplx:
            x = x + 1j * rng.integers(-9, 10, size=N)
    elif kind == 'dyn':
        x = rng.standard_normal(N) * 2.0 ** rng.integers(-20, 21, size=N)
        if cplx:
            x = x + 1j * rng.standard_normal(N) * 2.0 ** rng.integers(-20, 21, size=N)
    else:
        x = rng.standard_normal(N)
        if cplx:
            x = x + 1j * rng.standard_normal(N)
    if cplx:
        x = x.astype(complex)
    if not np.any(x):
        x[0] = 1
    return x


def nontriv(x):
    x = np.asarray(x)
    return x.size >= 2 and bool(np.any(x != x.flat[0]))


def odft(v, n, nb):
    """independent DFT oracle: sum_m v[m] exp(-2 pi i m k / n), k < nb (v cropped to n)"""
    t = twtab(n)
    v = [complex(a) for a in v][:n]
    return [sum(v[m] * t[(m * k) % n] for m in range(len(v))) for k in range(nb)]


def oracle_per(x, w, NFFT, cplx, m=0.0):
    N = len(x)
    xw = [complex(x[i]) * float(w[i]) - m for i in range(N)]
    nb = NFFT if cplx else NFFT // 2 + 1
    return np.array([abs(z) ** 2 / N for z in odft(xw, NFFT, nb)])


def bin_bound(x, w, m=0.0):
    """upper bound S of any bin: (sum |x w - m|)^2 / N"""
    N = len(x)
    return float(np.sum(np.abs(np.asarray(x) * np.asarray(w) - m))) ** 2 / N


def tol_abs(ref, S):
    M = float(np.max(np.abs(ref))) if len(ref) else 0.0
    return 1e-9 * max(M, 1e-6 * S, 1e-300)


def far(a, b, tol):
    """True when a and b are not within tol everywhere (NaN/inf anywhere counts as far)"""
    a = np.asarray(a); b = np.asarray(b)
    if a.shape != b.shape:
        return True
    if a.size == 0:
        return False
    return not bool(np.all(np.abs(a - b) <= tol))


PYV = {'True': ('PyTrue', True), 'False': ('PyFalse', False), 'None': ('PyNone', None), 'mean': ('PyStr', 'mean'),
       '1': ('(PyInt 1)', 1), '0': ('(PyInt 0)', 0), '2': ('(PyInt 2)', 2)}


def optnat(n):
    return 'None' if n is None else '(Some %d%%nat)' % n


def b2c(b):
    return 'true' if b else 'false'


def hexx(x):
    return vlib.hexv(np.asarray(x))


def unhex_arr(v, cplx):
    a = vlib.unhexv(v)
    return a.astype(complex) if cplx else np.real(a).astype(float)


# ----------------------------------------------------------------------------- clause evaluation on the implementation
def as_intype(x, intype):
    """the same sample values in another container / dtype the API accepts (values must be integers for the int forms)"""
    if intype == 'int':
        return np.real(x).astype(np.int64) if not np.iscomplexobj(x) or not np.any(np.imag(x)) else x
    if intype == 'list':
        return [complex(t) if np.iscomplexobj(x) else float(t) for t in np.ravel(x)] if np.ndim(x) == 1 else x
    if intype == 'intlist':
        return [int(t) for t in np.real(np.ravel(x))] if (np.ndim(x) == 1 and not np.any(np.imag(x))) else x
    return x


def eval_speriodogram(r):
    """definition at every bin, length, finiteness, Parseval (complex), 2-D column-wise; r is a replay dict"""
    from spectrum import speriodogram
    bad = []
    cplx = r['complex']; name = r['window']; NFFT = r['NFFT']
    x = unhex_arr(r['x'], cplx)
    tag = 'complex' if cplx else 'real'
    if r.get('shape'):
        rr, c = r['shape']; X = x.reshape(rr, c)
        w = win(rr, name)
        P = np.asarray(speriodogram(as_intype(X, r.get('intype')) if r.get('intype') == 'int' else X, NFFT=NFFT, detrend=False, scale_by_freq=False, window=name))
        nb = NFFT if cplx else NFFT // 2 + 1
        if P.shape != (nb, c):
            bad.append(('length/speriodogram/2d/' + tag, 'shape %r, expected (%d, %d)' % (P.shape, nb, c)))
            return bad
        for j in range(c):
            ref = oracle_per(X[:, j], w, NFFT, cplx)
            t = tol_abs(ref, bin_bound(X[:, j], w))
            if far(P[:, j], ref, t):
                bad.append(('columnwise/speriodogram/2d/%s/window_%s' % (tag, 'rect' if name in ('rectangular', 'rectangle') else 'nonconstant'),
                            'column %d of the 2-D result differs from |DFT(x[:,%d]*w)|^2/N (window %s, shape %dx%d, NFFT %d): max dev %.3g'
                            % (j, j, name, rr, c, NFFT, float(np.nanmax(np.abs(P[:, j] - ref))))))
                break
            P1 = np.asarray(speriodogram(X[:, j].copy(), NFFT=NFFT, detrend=False, scale_by_freq=False, window=name))
            if far(P[:, j], P1, t):
                bad.append(('columnwise/speriodogram/2d_vs_1d/' + tag, 'column %d differs from the 1-D call on that column' % j))
                break
        return bad
    N = len(x); w = win(N, name)
    P = np.asarray(speriodogram(as_intype(x, r.get('intype')), NFFT=NFFT, detrend=False, scale_by_freq=False, window=name))
    if NFFT is None:
        NFFT = N          # the documented default: the data length
    nb = NFFT if cplx else NFFT // 2 + 1
    if P.shape != (nb,):
        bad.append(('length/speriodogram/1d/' + tag, 'length %r, expected %d (N=%d NFFT=%d)' % (P.shape, nb, N, NFFT)))
        return bad
    if np.iscomplexobj(P):
        bad.append(('def/speriodogram/1d/%s/dtype' % tag, 'complex-valued periodogram'))
    ref = oracle_per(x, w, NFFT, cplx)
    S = bin_bound(x, w)
    if not np.all(np.isfinite(P)):
        bad.append(('def/speriodogram/1d/%s/window_%s/nonfinite' % (tag, name),
                    'non-finite periodogram value for finite data (window %s, N=%d): window samples finite: %s' % (name, N, bool(np.all(np.isfinite(w))))))
    elif far(P, ref, tol_abs(ref, S)):
        k = int(np.argmax(np.abs(P - ref)))
        bad.append(('def/speriodogram/1d/%s' % tag, 'bin %d is %r, |DFT_%d(x*w)[%d]|^2/N = %r (window %s, N=%d)' % (k, P[k], NFFT, k, ref[k], name, N)))
    if cplx and np.all(np.isfinite(P)):
        lhs = float(np.mean(P)); rhs = float(np.sum(np.abs(x * w) ** 2)) / N
        if not abs(lhs - rhs) <= 1e-9 * max(abs(rhs), 1e-300):
            bad.append(('parseval/speriodogram/1d/complex', 'mean of the %d bins %r != sum|x w|^2/N %r (window %s, N=%d)' % (NFFT, lhs, rhs, name, N)))
    return bad


def run_class_ops(x, name, nfft_arg, ops, sbf=False, detrend=None, sampling=1.0, intype=None, mutate=False):
    """drive a Periodogram object; returns (psd, NFFT, range.N, final window name)"""
    from spectrum import Periodogram
    given = as_intype(x, intype)
    if mutate and isinstance(given, np.ndarray):
        given = given.copy()
    if isinstance(given, np.ndarray) and not mutate and given.ndim == 1 and len(given) >= 2:
        from props import _estimators as E
        route, _ = E.route_for(given, name, nfft_arg, repr(ops))
        p = E.via(lambda d, n, s_, b: Periodogram(d, sampling=s_, window=name, NFFT=n, scale_by_freq=b, detrend=detrend), given, nfft_arg, sampling, sbf, route)
    else:
        p = Periodogram(given, sampling=sampling, window=name, NFFT=nfft_arg, scale_by_freq=sbf, detrend=detrend)
    if mutate and isinstance(given, np.ndarray):
        given[...] = given * 3 + 1          # the caller re-uses its buffer: the object must keep the samples it was given
    cur = name
    for o in ops:
        if o == 'call':
            p()
        elif o == 'read':
            p.psd
        else:
            p.window = o[7:]; cur = o[7:]
    psd = np.array(p.psd, dtype=float)
    return psd, p.NFFT, p.range.N, cur


def eval_class(r):
    bad = []
    cplx = r['complex']; x = unhex_arr(r['x'], cplx); name = r['window']; tag = 'complex' if cplx else 'real'
    N = len(x); arg = r['NFFT']
    n0 = N if arg is None else (1 << int(math.ceil(math.log2(N))) if arg == 'nextpow2' else arg)
    psd, nfft, rn, cur = run_class_ops(x, name, arg, r['ops'], detrend=r.get('detrend'), intype=r.get('intype'), mutate=r.get('mutate', False))
    w = win(N, cur)
    ref = oracle_per(x, w, n0, cplx)
    hist = 'first_evaluation' if len([o for o in r['ops'] if o in ('call', 'read')]) == 0 else 're_evaluated'
    par = 'odd' if n0 % 2 else 'even'
    if nfft != n0 or rn != n0:
        bad.append(('class/Periodogram/%s/NFFT_%s/%s/nfft_attribute' % (tag, par, hist), 'NFFT attribute %r / range.N %r after %r, constructed with NFFT=%r (N=%d): expected %d'
                    % (nfft, rn, r['ops'], arg, N, n0)))
    if psd.shape != ref.shape or far(psd, ref, tol_abs(ref, bin_bound(x, w))):
        if r.get('mutate'):
            hist += '/caller_buffer_reused'
        bad.append(('class/Periodogram/%s/NFFT_%s/%s' % (tag, par, hist), 'stored PSD after %r differs from |DFT_%d(x*w)|^2/N (window %s, N=%d): shapes %r vs %r'
                    % (r['ops'], n0, cur, N, psd.shape, ref.shape)))
    return bad


def eval_wk(r):
    from spectrum import speriodogram, CORRELOGRAMPSD
    bad = []
    cplx = r['complex']; x = unhex_arr(r['x'], cplx); N = len(x); NFFT = r['NFFT']; be = r['backend']; wn = r['window']
    tag = 'complex' if cplx else 'real'
    C = np.asarray(CORRELOGRAMPSD(x, lag=N - 1, window=wn, norm='biased', NFFT=NFFT, correlation_method=be))
    ref = oracle_per(x, np.ones(N), NFFT, True)
    t = tol_abs(ref, bin_bound(x, np.ones(N)))
    if C.shape != (NFFT,) or far(C, ref, t):
        bad.append(('wiener_khinchin/CORRELOGRAMPSD/%s/%s' % (be, tag), 'correlogram (rectangular, lag N-1, biased, NFFT=%d >= 2N-1, N=%d) differs from |DFT(x)|^2/N'
                    % (NFFT, N)))
    P = np.asarray(speriodogram(x.astype(complex), NFFT=NFFT, detrend=False, scale_by_freq=False, window=wn))
    if C.shape != P.shape or far(C, P, t):
        bad.append(('wiener_khinchin/CORRELOGRAMPSD_vs_speriodogram/%s/%s' % (be, tag), 'correlogram differs from the periodogram of the same data'))
    return bad


EVAL = {'speriodogram': eval_speriodogram, 'Periodogram': eval_class, 'CORRELOGRAMPSD': eval_wk}


def replay(rep):
    earlier_parametrised_calls()
    if rep.get('replay', {}).get('form') == 'routes':
        from props import _estimators as E_
        return E_.replay_routes(rep['replay'])
    if rep['replay'].get('protocol') == 'values_only':
        from props import _purity
        return _purity.replay_protocol(rep['replay'])
    r = rep['replay']
    f = EVAL.get(r.get('function'))
    if f is None:
        return True
    return not f(r)


# ----------------------------------------------------------------------------- correspondence generators
def impl_call(ctx, fn, info, thunk):
    """run the implementation; an exception on an input the model accepts is a correspondence break (the search
    reports the same configuration as a violation with a replay)"""
    try:
        return thunk()
    except Exception as e:
        info = dict(info); info['impl_raised'] = repr(e)
        ctx.corr_disagreement(fn, 'exception', info)
        ctx.count('corr/%s/implementation_raised' % fn)
        return None


def per_case_str(x, w, nfft, cplx, dt, sbf, fs, impl, S, isreal=None):
    n = len(x) if nfft is None else nfft
    return 'per_case 0x1.12e0be826d695p-30 %s T%d %s %s %s %s %s %s %s %s %s' % (
        fl(1e-6 * S + 1e-300), n, fl(2 * np.pi), fcl(x), fll(w), optnat(nfft), b2c(not cplx if isreal is None else isreal),
        PYV[dt][0], PYV[sbf][0], fl(fs), fll(impl))


def corr_speriodogram(ctx, cases, meta):
    from spectrum import speriodogram
    rng = ctx.rng
    W = window_list()
    top = ctx.q(32, 64)

    def add(x, name, nfft, dt='False', sbf='False', fs=1.0, kind=''):
        N = len(x); cplx = np.iscomplexobj(x); w = win(N, name)
        P = impl_call(ctx, 'speriodogram', {'x': hexx(x), 'window': name, 'NFFT': nfft, 'detrend': dt, 'scale_by_freq': sbf},
                      lambda: np.asarray(speriodogram(x, NFFT=nfft, detrend=PYV[dt][1], scale_by_freq=PYV[sbf][1], sampling=fs, window=name), dtype=float))
        if P is None:
            return
        m = complex(np.mean(x)) if PYV[dt][1] == True else 0.0   # noqa: E712  (the code's own test)
        S = bin_bound(x, w, m)
        if PYV[sbf][1] is True:
            S *= 2 * np.pi / (fs / float(N if nfft is None else nfft))
        cases.append(per_case_str(x, w, nfft, cplx, dt, sbf, fs, P, S))
        meta.append({'function': 'speriodogram', 'x': hexx(x), 'window': name, 'NFFT': nfft, 'detrend': dt, 'scale_by_freq': sbf, 'sampling': fs, 'complex': bool(cplx)})
        n = N if nfft is None else nfft
        ctx.count('corr/speriodogram/%s/%s' % ('complex' if cplx else 'real', kind or 'opt'))
        for cat in nfft_category(n):
            ctx.count('corr/NFFT_' + cat)
        ctx.count('corr/window/' + name)
        ctx.case(('speriodogram', x.tobytes(), name, nfft, dt, sbf, fs), nontrivial=nontriv(x),
                 sample={'function': 'speriodogram', 'N': N, 'NFFT': nfft, 'window': name, 'complex': bool(cplx), 'kind': kind})

    # A: every NFFT up to top, real and complex
    for nfft in range(1, top + 1):
        for cplx in (False, True):
            N = int(rng.integers(1, min(nfft, 33) + 1)); kind = KINDS[int(rng.integers(0, 4))]
            add(gen_data(rng, N, cplx, kind), W[int(rng.integers(0, len(W)))], nfft, kind=kind)
    # B: every window x every N in 1..33 (quick: one data type per pair, thorough: both)
    cats = ['even', 'odd', 'prime', 'pow2']
    for name in W:
        for N in range(1, 34):
            for cplx in ((False, True) if ctx.tier == 'thorough' else (bool(rng.integers(0, 2)),)):
                nfft = pick_nfft(rng, N, NMAX, cats[int(rng.integers(0, 4))]); kind = KINDS[int(rng.integers(0, 4))]
                add(gen_data(rng, N, cplx, kind), name, nfft, kind=kind)
    # C: flag values, NFFT=None, NFFT<N (numpy crops), sampling
    for _ in range(ctx.q(150, 800)):
        N = int(rng.integers(1, 34)); cplx = bool(rng.integers(0, 2)); kind = KINDS[int(rng.integers(0, 4))]
        dt = ['True', 'False', 'None', 'mean', '1', '0', '2'][int(rng.integers(0, 7))]
        sbf = ['True', 'False', '1', 'None'][int(rng.integers(0, 4))]
        how = int(rng.integers(0, 4))
        nfft = None if how == 0 else (int(rng.integers(1, N + 1)) if how == 1 else pick_nfft(rng, N, NMAX))
        fs = float(rng.choice([1.0, 2.0, 0.5, 1024.0, 3.0]))
        add(gen_data(rng, N, cplx, kind), W[int(rng.integers(0, len(W)))], nfft, dt, sbf, fs, kind='')
        ctx.count('corr/flags/detrend=%s' % dt); ctx.count('corr/flags/scale_by_freq=%s' % sbf)
        ctx.count('corr/nfft_arg/%s' % ('None' if nfft is None else ('crop' if nfft < N else 'pad')))
    # D: basis vectors e_j for N <= NFFT <= top2 and polarisation vectors (complete for the Hermitian form) for small N
    top2 = ctx.q(14, 24)
    for nfft in range(1, top2 + 1):
        for N in range(1, nfft + 1):
            for j in range(N):
                x = np.zeros(N); x[j] = 1.0
                add(x, 'hamming', nfft, kind='basis')
    topp = ctx.q(4, 7)
    for N in range(2, topp + 1):
        for nfft in sorted(set([N, N + 1, 2 * N - 1, 2 * N])):
            for j in range(N):
                for l in range(j + 1, N):
                    for ph in (1.0, 1j):
                        x = np.zeros(N, dtype=complex); x[j] = 1.0; x[l] = ph
                        add(x, 'blackman', nfft, kind='polarisation')
    ctx.extra['exhaustive_subspaces'] = ['basis vectors e_j, hamming, all N<=NFFT<=%d' % top2,
                                         'polarisation vectors e_j+e_l, e_j+i e_l, blackman, N<=%d, NFFT in {N,N+1,2N-1,2N}' % topp]


def corr_2d(ctx, cases, meta):
    from spectrum import speriodogram
    rng = ctx.rng
    W = [n for n in window_list() if n not in ('rectangular', 'rectangle')]
    for it in range(ctx.q(160, 900)):
        r = int(rng.integers(1, 34)); c = int(rng.integers(1, 5)); cplx = bool(rng.integers(0, 2)); kind = KINDS[int(rng.integers(0, 4))]
        name = W[int(rng.integers(0, len(W)))] if it % 8 else 'rectangular'
        X = gen_data(rng, r * c, cplx, kind).reshape(r, c)
        how = int(rng.integers(0, 6))
        nfft = None if how == 0 else pick_nfft(rng, r, NMAX, ['even', 'odd', 'prime', 'pow2'][int(rng.integers(0, 4))])
        dt = ['False', 'False', 'True', 'None', '1'][int(rng.integers(0, 5))]
        sbf = ['False', 'False', 'False', 'True'][int(rng.integers(0, 4))]
        fs = float(rng.choice([1.0, 2.0, 0.5]))
        P = impl_call(ctx, 'speriodogram', {'x': hexx(X), 'shape': [r, c], 'window': name, 'NFFT': nfft, 'detrend': dt, 'scale_by_freq': sbf},
                      lambda: np.asarray(speriodogram(X, NFFT=nfft, detrend=PYV[dt][1], scale_by_freq=PYV[sbf][1], sampling=fs, window=name), dtype=float))
        if P is None or P.ndim != 2:
            if P is not None:
                ctx.corr_disagreement('speriodogram', 'shape', {'x': hexx(X), 'shape': [r, c], 'window': name, 'NFFT': nfft, 'result_shape': list(P.shape)})
            continue
        w = win(r, name)
        n = r if nfft is None else nfft
        S = max(bin_bound(X[:, j], w, complex(np.mean(X[:, j])) if PYV[dt][1] == True else 0.0) for j in range(c))  # noqa: E712
        if PYV[sbf][1] is True:
            S *= 2 * np.pi / (fs / float(n))
        cases.append('per2d_case 0x1.12e0be826d695p-30 %s T%d %s %s %d%%nat %s %s %s %s %s %s %s' % (
            fl(1e-6 * S + 1e-300), n, fl(2 * np.pi), '[' + '; '.join(fcl(row) for row in X) + ']', c, fll(w), optnat(nfft), b2c(not cplx),
            PYV[dt][0], PYV[sbf][0], fl(fs), '[' + '; '.join(fll(row) for row in P) + ']'))
        meta.append({'function': 'speriodogram', 'x': hexx(X), 'shape': [r, c], 'window': name, 'NFFT': nfft, 'detrend': dt, 'scale_by_freq': sbf, 'complex': cplx})
        ctx.count('corr/speriodogram2d/%s/cols=%d' % ('complex' if cplx else 'real', c)); ctx.count('corr/window/' + name)
        ctx.case(('speriodogram2d', X.tobytes(), r, c, name, nfft, dt, sbf), nontrivial=nontriv(X),
                 sample={'function': 'speriodogram (2-D)', 'shape': [r, c], 'NFFT': nfft, 'window': name, 'complex': cplx})


def corr_class(ctx, cases, meta):
    rng = ctx.rng
    W = window_list()
    for it in range(ctx.q(160, 900)):
        N = int(rng.integers(1, 34)); cplx = bool(rng.integers(0, 2)); kind = KINDS[int(rng.integers(0, 4))]
        x = gen_data(rng, N, cplx, kind)
        how = int(rng.integers(0, 4))
        if how == 0:
            arg = None; acoq = 'NfNone'; n0 = N
        elif how == 1:
            arg = 'nextpow2'; acoq = 'NfPow2'; n0 = 1 << int(math.ceil(math.log2(N)))
        else:
            n0 = pick_nfft(rng, N, NMAX, ['even', 'odd', 'prime', 'pow2'][int(rng.integers(0, 4))]); arg = n0; acoq = '(NfInt %d)' % n0
        name = W[int(rng.integers(0, len(W)))]
        sbf = ['False', 'False', 'True'][int(rng.integers(0, 3))]
        dt = ['None', 'mean'][int(rng.integers(0, 2))]
        fs = float(rng.choice([1.0, 2.0, 0.5, 1024.0]))
        ops = []
        for _ in range(int(rng.integers(0, 5))):
            t = int(rng.integers(0, 4))
            ops.append('call' if t == 0 else ('read' if t == 1 else 'window:' + W[int(rng.integers(0, len(W)))]))
        res = impl_call(ctx, 'Periodogram', {'x': hexx(x), 'window': name, 'NFFT': arg, 'ops': ops, 'scale_by_freq': sbf, 'detrend': PYV[dt][1], 'sampling': fs},
                        lambda: run_class_ops(x, name, arg, ops, sbf=PYV[sbf][1], detrend=PYV[dt][1], sampling=fs))
        if res is None:
            continue
        psd, nfft, rn, cur = res
        cops = []
        for o in ops + ['read']:
            if o == 'call':
                cops.append('(0%nat, [])')
            elif o == 'read':
                cops.append('(1%nat, [])')
            else:
                cops.append('(%d%%nat, %s)' % (2 + W.index(o[7:]), fll(win(N, o[7:]))))
        wc = win(N, cur)
        S = bin_bound(x, wc) * (2 * np.pi / (fs / float(n0)) if sbf == 'True' else 1.0)
        cases.append('cls_case 0x1.12e0be826d695p-30 %s T%d %s %s %s %d%%nat %s %s %s %s %s [%s] %d%%nat %d%%nat %s' % (
            fl(1e-6 * S + 1e-300), n0, fl(2 * np.pi), fcl(x), b2c(not cplx), W.index(name), fll(win(N, name)), fl(fs), acoq,
            PYV[dt][0], PYV[sbf][0], '; '.join(cops), int(nfft), int(rn), fll(psd)))
        meta.append({'function': 'Periodogram', 'x': hexx(x), 'window': name, 'NFFT': arg, 'ops': ops, 'scale_by_freq': sbf, 'detrend': PYV[dt][1], 'sampling': fs, 'complex': cplx})
        ctx.count('corr/Periodogram/%s/NFFT=%s/ops=%d' % ('complex' if cplx else 'real', 'None' if arg is None else ('nextpow2' if arg == 'nextpow2' else 'odd' if n0 % 2 else 'even'), len(ops)))
        ctx.case(('Periodogram', x.tobytes(), name, arg, tuple(ops), sbf, dt, fs), nontrivial=nontriv(x),
                 sample={'function': 'Periodogram', 'N': N, 'NFFT': arg, 'ops': ops, 'window': name, 'complex': cplx})


NORMS = [('biased', 'Biased'), ('unbiased', 'Unbiased'), ('coeff', 'Coeff'), (None, 'NoNorm')]


def call_correlogram(x, y, lag, name, norm, nfft, be):
    from spectrum import CORRELOGRAMPSD
    try:
        return False, np.asarray(CORRELOGRAMPSD(x, y, lag=lag, window=name, norm=norm, NFFT=nfft, correlation_method=be), dtype=float)
    except (AssertionError, ValueError, IndexError):
        return True, np.zeros(0)


def corr_correlogram(ctx, cases, meta):
    from spectrum.correlation import pylab_rms_flat
    rng = ctx.rng
    W = window_list()
    done = 0; tries = 0
    want = ctx.q(320, 1600)
    while done < want and tries < 10 * want:
        tries += 1
        N = int(rng.integers(1, 25)); cplx = bool(rng.integers(0, 2)); kind = ['int', 'rand', 'dyn', 'const'][int(rng.integers(0, 4))]
        x = gen_data(rng, N, cplx, kind)
        cross = int(rng.integers(0, 3)) == 0
        y = gen_data(rng, N, bool(rng.integers(0, 2)), kind) if cross else None
        lag = int(rng.integers(0, N)) if rng.integers(0, 12) else N      # lag = N must raise
        lay = int(rng.integers(0, 8))
        if lay == 0:
            nfft = None
        elif lay == 1:
            nfft = int(rng.integers(1, lag + 2))                            # too short or exactly lag+1
        elif lay == 2:
            nfft = int(rng.integers(lag + 1, 2 * lag + 2))                  # overlapping layout
        else:
            nfft = pick_nfft(rng, min(2 * lag + 1, NMAX), NMAX, ['even', 'odd', 'prime', 'pow2'][int(rng.integers(0, 4))])
        n = N if nfft is None else nfft
        if n > NMAX:
            continue
        norm, ncoq = NORMS[int(rng.integers(0, 4))]
        be = ['xcorr', 'CORRELATION'][int(rng.integers(0, 2))]
        name = W[int(rng.integers(0, len(W)))]
        raised, P = call_correlogram(x, y, lag, name, norm, nfft, be)
        if not raised and not np.all(np.isfinite(P)):
            ctx.count('corr/CORRELOGRAMPSD/regenerated_nonfinite'); continue
        wfull = win(2 * lag + 1, name) if lag < N else np.ones(2 * lag + 1)
        rp = float(pylab_rms_flat(x) * pylab_rms_flat(x if y is None else y))
        yy = x if y is None else y
        S = float(np.sum(np.abs(x)) * np.sum(np.abs(yy))) * max(1.0, float(np.max(np.abs(wfull)))) * 2
        if norm == 'coeff':
            S = S / rp / N + 2
        elif norm == 'biased':
            S = S / N
        elif norm == 'unbiased':
            S = S / max(1, N - lag)
        cases.append('cor_case 0x1.12e0be826d695p-30 %s T%d %s %s %s %d%%nat %s %s %s %s %s %s' % (
            fl(1e-6 * S + 1e-300), max(1, min(n, NMAX)), fl(rp), fcl(x), 'None' if y is None else '(Some %s)' % fcl(y), lag, fll(wfull), optnat(nfft), ncoq,
            'BXcorr' if be == 'xcorr' else 'BCorrelation', b2c(raised), fll(P)))
        meta.append({'function': 'CORRELOGRAMPSD (correspondence)', 'x': hexx(x), 'y': None if y is None else hexx(y), 'lag': lag, 'window': name,
                     'norm': norm, 'NFFT': nfft, 'backend': be, 'impl_raised': raised})
        ctx.count('corr/CORRELOGRAMPSD/%s/%s/%s/%s' % (be, 'cross' if cross else 'auto', ncoq, 'raised' if raised else
                                                    ('overlap' if n < 2 * lag + 1 else 'disjoint')))
        ctx.case(('CORRELOGRAMPSD', x.tobytes(), None if y is None else y.tobytes(), lag, name, norm, nfft, be), nontrivial=nontriv(x) and lag >= 1,
                 sample={'function': 'CORRELOGRAMPSD', 'N': N, 'lag': lag, 'NFFT': nfft, 'window': name, 'norm': norm, 'backend': be, 'raised': raised})
        done += 1


def lowbit(rng, n, cplx, bits=3):
    s = 1 << bits
    x = rng.integers(-s, s + 1, size=n).astype(float) / 4
    if cplx:
        x = (x + 1j * rng.integers(-s, s + 1, size=n) / 4).astype(complex)
    if not np.any(x):
        x[0] = 1
    return x


def corr_exact(ctx, cases, meta):
    """exact runs at Gaussian rationals with the exact twiddles of n = 1, 2, 4"""
    from spectrum import speriodogram
    from spectrum.correlation import pylab_rms_flat
    rng = ctx.rng
    W = window_list()
    tol = tolq(1e-12)
    for it in range(ctx.q(150, 600)):
        n = [1, 2, 4][int(rng.integers(0, 3))]; N = int(rng.integers(1, n + 1)); cplx = bool(rng.integers(0, 2))
        x = lowbit(rng, N, cplx); name = W[int(rng.integers(0, len(W)))]
        dt = ['False', 'True', 'None', '1'][int(rng.integers(0, 4))]; sbf = ['False', 'False', 'True'][int(rng.integers(0, 3))]
        fs = float(rng.choice([1.0, 2.0, 0.5])); nfft = None if (N == n and rng.integers(0, 2)) else n
        w = win(N, name)
        P = np.asarray(speriodogram(x, NFFT=nfft, detrend=PYV[dt][1], scale_by_freq=PYV[sbf][1], sampling=fs, window=name), dtype=float)
        if not (np.all(np.isfinite(w)) and np.all(np.isfinite(P))):
            ctx.count('exact/skipped_nonfinite'); continue
        S = bin_bound(x, w, complex(np.mean(x)) if PYV[dt][1] == True else 0.0) * (2 * np.pi / (fs / n) if sbf == 'True' else 1.0)  # noqa: E712
        cases.append('qper_case %s %s %d%%nat %s %s %s %s %s %s %s %s %s' % (tol, tolq(1e-3 * S + 1e-300), n, cz(2 * np.pi), czl(x), czl(w), optnat(nfft),
                     b2c(not cplx), PYV[dt][0], PYV[sbf][0], cz(fs), czl(P)))
        meta.append({'function': 'speriodogram (exact)', 'x': hexx(x), 'window': name, 'NFFT': nfft, 'detrend': dt, 'scale_by_freq': sbf, 'complex': cplx})
        ctx.count('exact/speriodogram/NFFT=%d' % n); ctx.case(('qper', x.tobytes(), name, nfft, dt, sbf, fs), nontrivial=nontriv(x))
    for it in range(ctx.q(60, 300)):
        n = [2, 4][int(rng.integers(0, 2))]; r = int(rng.integers(1, n + 1)); c = int(rng.integers(1, 4)); cplx = bool(rng.integers(0, 2))
        X = lowbit(rng, r * c, cplx).reshape(r, c); name = W[int(rng.integers(0, len(W)))]; w = win(r, name)
        P = np.asarray(speriodogram(X, NFFT=n, detrend=False, scale_by_freq=False, window=name), dtype=float)
        if not (np.all(np.isfinite(w)) and np.all(np.isfinite(P))):
            ctx.count('exact/skipped_nonfinite'); continue
        S = max(bin_bound(X[:, j], w) for j in range(c))
        cases.append('qper2d_case %s %s %d%%nat %s %s %d%%nat %s %s %s PyFalse PyFalse %s %s' % (tol, tolq(1e-3 * S + 1e-300), n, cz(2 * np.pi),
                     '[' + '; '.join(czl(row) for row in X) + ']', c, czl(w), optnat(n), b2c(not cplx), cz(1.0), czl(P.ravel())))
        meta.append({'function': 'speriodogram 2-D (exact)', 'x': hexx(X), 'shape': [r, c], 'window': name, 'NFFT': n, 'complex': cplx})
        ctx.count('exact/speriodogram2d/NFFT=%d' % n); ctx.case(('qper2d', X.tobytes(), r, c, name, n), nontrivial=nontriv(X))
    for it in range(ctx.q(100, 400)):
        n = [1, 2, 4][int(rng.integers(0, 3))]; N = int(rng.integers(1, 5)); cplx = bool(rng.integers(0, 2))
        x = lowbit(rng, N, cplx); cross = int(rng.integers(0, 3)) == 0
        y = lowbit(rng, N, bool(rng.integers(0, 2))) if cross else None
        lag = int(rng.integers(0, N + 1)); norm, ncoq = NORMS[int(rng.integers(0, 4))]
        if norm == 'coeff':
            norm, ncoq = 'biased', 'Biased'     # rms needs a square root: not a rational input
        be = ['xcorr', 'CORRELATION'][int(rng.integers(0, 2))]; name = W[int(rng.integers(0, len(W)))]
        raised, P = call_correlogram(x, y, lag, name, norm, n, be)
        wfull = win(2 * lag + 1, name) if lag < N else np.ones(2 * lag + 1)
        if not (np.all(np.isfinite(wfull)) and np.all(np.isfinite(P))):
            ctx.count('exact/skipped_nonfinite'); continue
        S = float(np.sum(np.abs(x)) * np.sum(np.abs(x if y is None else y))) * 2 * max(1.0, float(np.max(np.abs(wfull))))
        cases.append('qcor_case %s %s %d%%nat %s %s %s %d%%nat %s %s %s %s %s %s' % (tol, tolq(1e-3 * S + 1e-300), n, cz(1.0), czl(x),
                     'None' if y is None else '(Some %s)' % czl(y), lag, czl(wfull), optnat(n), ncoq, 'BXcorr' if be == 'xcorr' else 'BCorrelation', b2c(raised), czl(P)))
        meta.append({'function': 'CORRELOGRAMPSD (exact)', 'x': hexx(x), 'y': None if y is None else hexx(y), 'lag': lag, 'window': name, 'norm': norm, 'NFFT': n, 'backend': be, 'impl_raised': raised})
        ctx.count('exact/CORRELOGRAMPSD/NFFT=%d/%s' % (n, 'raised' if raised else 'returned')); ctx.case(('qcor', x.tobytes(), None if y is None else y.tobytes(), lag, name, norm, n, be), nontrivial=nontriv(x))
    for it in range(ctx.q(60, 240)):
        n = [1, 2, 4][int(rng.integers(0, 3))]; N = int(rng.integers(max(1, n // 2 + (n > 1)), n + 1)); cplx = bool(rng.integers(0, 2))
        x = lowbit(rng, N, cplx); name = W[int(rng.integers(0, len(W)))]
        how = int(rng.integers(0, 3))
        if how == 0 and N == n:
            arg = None; acoq = 'NfNone'
        elif how == 1 and (1 << int(math.ceil(math.log2(N)))) == n:
            arg = 'nextpow2'; acoq = 'NfPow2'
        else:
            arg = n; acoq = '(NfInt %d)' % n
        sbf = ['False', 'True'][int(rng.integers(0, 2))]; fs = float(rng.choice([1.0, 2.0, 0.5])); nc = int(rng.integers(1, 4))
        res = impl_call(ctx, 'Periodogram (exact)', {'x': hexx(x), 'window': name, 'NFFT': arg, 'ops': ['call'] * nc, 'scale_by_freq': sbf, 'sampling': fs},
                        lambda: run_class_ops(x, name, arg, ['call'] * nc, sbf=PYV[sbf][1], sampling=fs))
        if res is None:
            continue
        psd, nfft, rn, cur = res
        w = win(N, name)
        if not (np.all(np.isfinite(w)) and np.all(np.isfinite(psd))):
            ctx.count('exact/skipped_nonfinite'); continue
        S = bin_bound(x, w) * (2 * np.pi / (fs / n) if sbf == 'True' else 1.0)
        cases.append('qcls_case %s %s %d%%nat %s %s %s %s %s %s PyNone %s %d%%nat %d%%nat %s' % (tol, tolq(1e-3 * S + 1e-300), n, cz(2 * np.pi), czl(x), b2c(not cplx),
                     czl(w), cz(fs), acoq, PYV[sbf][0], nc, int(nfft), czl(psd)))
        meta.append({'function': 'Periodogram (exact)', 'x': hexx(x), 'window': name, 'NFFT': arg, 'ops': ['call'] * nc, 'scale_by_freq': sbf, 'complex': cplx})
        ctx.count('exact/Periodogram/NFFT=%d' % n); ctx.case(('qcls', x.tobytes(), name, arg, nc, sbf, fs), nontrivial=nontriv(x))


# ----------------------------------------------------------------------------- search
def search(ctx, requeue=()):
    rng = ctx.rng
    W = window_list()
    big = ctx.q(64, 160)

    def report(r, desc, sample=None):
        ctx.case(desc, nontrivial=nontriv(unhex_arr(r['x'], r['complex'])), sample=sample)
        try:
            bad = EVAL[r['function']](r)
        except Exception as e:  # an exception on an admissible input is a failure of the clause
            bad = [('raises/%s/%s' % (r['function'], type(e).__name__), 'raised %r on an admissible input' % (e,))]
        for key, what in bad:
            ctx.violation(key, what, r)

    for j, r in enumerate(list(requeue)[:12]):
        report(r, ('requeued-class', j, r['x'], r['window'], str(r['NFFT']), tuple(r['ops'])))

    # 1-D definition / length / Parseval: every window x every N in 1..33, then random
    cats = ['even', 'odd', 'prime', 'pow2']
    for name in W:
        for N in range(1, 34):
            for cplx in (False, True):
                if ctx.tier == 'quick' and rng.integers(0, 3):
                    continue
                kind = KINDS[int(rng.integers(0, 4))]
                nfft = pick_nfft(rng, N, big, cats[int(rng.integers(0, 4))]) if rng.integers(0, 8) else None
                x = gen_data(rng, N, cplx, kind)
                if cplx and rng.integers(0, 6) == 0:
                    x = np.real(x).astype(complex)          # real samples stored in a complex array: still complex data (all NFFT bins)
                    if not np.any(x):
                        x[0] = 1
                r = {'function': 'speriodogram', 'x': hexx(x), 'window': name, 'NFFT': nfft, 'complex': cplx}
                if kind == 'int' and not cplx:
                    r['intype'] = ['int', 'intlist', 'list', None][int(rng.integers(0, 4))]
                ctx.count('search/speriodogram/%s/%s' % ('complex' if cplx else 'real', kind))
                for cat in (nfft_category(nfft) if nfft else ['default_None']):
                    ctx.count('search/NFFT_' + cat)
                report(r, ('s1d', x.tobytes(), name, nfft), sample={'function': 'speriodogram (search)', 'N': N, 'NFFT': nfft, 'window': name, 'kind': kind})
    # every window with odd N (centre sample) and NFFT = N, real data
    for name in W:
        for N in (1, 3, 5, 9, 33):
            x = gen_data(rng, N, False, 'rand')
            report({'function': 'speriodogram', 'x': hexx(x), 'window': name, 'NFFT': N, 'complex': False}, ('s1d-odd', x.tobytes(), name))
    # 2-D column-wise
    for it in range(ctx.q(150, 1200)):
        r_ = int(rng.integers(1, 34)); c = int(rng.integers(1, 5)); cplx = bool(rng.integers(0, 2)); kind = KINDS[int(rng.integers(0, 4))]
        name = W[int(rng.integers(0, len(W)))]
        X = gen_data(rng, r_ * c, cplx, kind).reshape(r_, c)
        nfft = pick_nfft(rng, r_, big, cats[int(rng.integers(0, 4))])
        ctx.count('search/speriodogram2d/%s/cols=%d' % ('complex' if cplx else 'real', c))
        report({'function': 'speriodogram', 'x': hexx(X), 'shape': [r_, c], 'window': name, 'NFFT': nfft, 'complex': cplx, 'intype': 'int' if (kind == 'int' and not cplx and it % 2) else None}, ('s2d', X.tobytes(), r_, c, name, nfft))
    # class vs definition, PSD evaluated once and several times
    OPS = [[], ['call'], ['call', 'call'], ['read', 'call'], ['read', 'window:hann', 'read'], ['call', 'window:bartlett', 'call', 'window:hamming'],
           ['read', 'read', 'window:blackman']]
    for it in range(ctx.q(200, 1500)):
        N = int(rng.integers(1, 34)); cplx = bool(rng.integers(0, 2)); kind = KINDS[int(rng.integers(0, 4))]
        x = gen_data(rng, N, cplx, kind); name = W[int(rng.integers(0, len(W)))]
        how = int(rng.integers(0, 5))
        arg = None if how == 0 else ('nextpow2' if how == 1 else pick_nfft(rng, N, big, cats[int(rng.integers(0, 4))]))
        ops = OPS[int(rng.integers(0, len(OPS)))]
        dt = [None, 'mean'][int(rng.integers(0, 2))]
        ctx.count('search/Periodogram/%s/%s/evals=%d' % ('complex' if cplx else 'real', 'None' if arg is None else arg if arg == 'nextpow2' else ('odd' if arg % 2 else 'even'), 1 + len([o for o in ops if o in ('call', 'read')])))
        if cplx and rng.integers(0, 6) == 0:
            x = np.real(x).astype(complex)
            if not np.any(x):
                x[0] = 1
        report({'function': 'Periodogram', 'x': hexx(x), 'window': name, 'NFFT': arg, 'ops': ops, 'detrend': dt, 'complex': cplx,
                'intype': (['int', 'intlist', 'list', None][int(rng.integers(0, 4))] if (kind == 'int' and not cplx) else None), 'mutate': bool(it % 3 == 0)}, ('cls', x.tobytes(), name, arg, tuple(ops), dt))
    # Wiener-Khinchin, both back ends
    for it in range(ctx.q(200, 1500)):
        N = int(rng.integers(1, 34)); cplx = bool(rng.integers(0, 2)); kind = KINDS[int(rng.integers(0, 4))]
        x = gen_data(rng, N, cplx, kind)
        nfft = [2 * N - 1, 2 * N, pick_nfft(rng, 2 * N - 1, max(big, 2 * N + 3), cats[int(rng.integers(0, 4))])][int(rng.integers(0, 3))]
        be = ['xcorr', 'CORRELATION'][it % 2]; wn = ['rectangular', 'rectangle'][int(rng.integers(0, 2))]
        ctx.count('search/wiener_khinchin/%s/%s/%s' % (be, 'complex' if cplx else 'real', kind))
        report({'function': 'CORRELOGRAMPSD', 'x': hexx(x), 'NFFT': nfft, 'backend': be, 'window': wn, 'complex': cplx}, ('wk', x.tobytes(), nfft, be, wn))


def run(ctx):
    import traceback, os
    import spectrum
    from props import _c01_pipeline
    ctx.check_theorems('Properties/C01.v')
    earlier_parametrised_calls()
    # the estimate an object holds does not depend on the history that gave it its data and settings (every route of _estimators.via)
    from props import _estimators as E_
    E_.class_route_stream(ctx, ['Periodogram'], 'routes')
    # translator tie: the pipeline record of Periodogram.__call__ / the psd property is re-extracted from the snapshot
    try:
        vtext = _c01_pipeline.generated_v(os.path.dirname(os.path.abspath(spectrum.__file__)))
    except _c01_pipeline.Unrecognised as e:
        ctx.obligations.append(('call_pipeline_is_modelled', False, []))
        ctx.broken.append({'theorem': 'translator:Periodogram.__call__ pipeline (source shape outside the modelled one)',
                           'where': 'periodogram.py / psd.py', 'log': str(e)[:2000]})
    else:
        ctx.check_generated('c01_pipeline', vtext, ['call_pipeline_is_modelled'])
    # CORRELOGRAMPSD (correlation_method='CORRELATION' embedded; xcorr an oracle) and the 1-D path of speriodogram regenerated from the source into the
    # loop-IR vs the hand models: exact at QcC with tw1 / tw2 / tw4, binary64 against the model (bit for bit) and the implementation
    from props._loopir import loopir_tie
    loopir_tie(ctx, ['CORRELOGRAMPSD', 'speriodogram'])
    pre = pre_float()
    requeue = []
    for nm, gen, pr, descr in (
            ('c01_speriodogram', corr_speriodogram, pre, 'speriodogram (1-D) vs Model.Periodogram.speriodogram at binary64 pairs, twiddle table from the harness'),
            ('c01_speriodogram2d', corr_2d, pre, 'speriodogram (2-D input) vs speriodogram2d'),
            ('c01_class', corr_class, pre, 'Periodogram object histories vs p_init/p_step'),
            ('c01_correlogram', corr_correlogram, pre, 'CORRELOGRAMPSD vs correlogram (incl. overlapping layouts and raising inputs)'),
            ('c01_exact', corr_exact, PRE_Q, 'exact runs at Gaussian rationals, NFFT in {1,2,4} (tw1, tw2, tw4)')):
        cases = []; meta = []
        try:
            gen(ctx, cases, meta)
        except Exception:   # the search below must still run and turn the break into a replay
            ctx.broken.append({'theorem': 'harness:%s (exception while generating cases)' % nm, 'where': nm, 'log': traceback.format_exc()[-2000:]})
        for i in ctx.coq_cases(nm, pr, cases[:len(meta)], descr=descr):
            ctx.corr_disagreement(meta[i]['function'], i, meta[i])
            if nm == 'c01_class':
                # a disagreeing object history: evaluate the same history (same data, window, NFFT, operations, hence the same derived
                # route) with the search's independent DFT oracle; if the definition clause fails it becomes a violation with a replay
                m = meta[i]
                requeue.append({'function': 'Periodogram', 'x': m['x'], 'window': m['window'], 'NFFT': m['NFFT'], 'ops': m['ops'],
                                'detrend': m.get('detrend'), 'complex': m['complex'], 'intype': None, 'mutate': False})
    search(ctx, requeue)

    # ---------------- results depend on the VALUES given only: call protocol (repeat, aliasing, buffer reuse, memory layout, integer / single-precision dtypes)
    from props import _purity
    _purity.run_protocol(ctx, ['speriodogram', 'speriodogram_detrend', 'CORRELOGRAMPSD'])
