"""C05 — NFFT only chooses the sampling grid of one underlying spectrum."""
import json, cmath, os
import numpy as np
import vlib
from vlib import fcl, fll
from props import _estimators as E
from props import _pipelines as P

LEVEL_TEXT = ("Coq theorems (abstract *-field; fine grid c*n with character tw', coarse grid n with the restricted character; every data length "
              "N <= n, refinement factor c >= 1 and returned bin, both parities of n and c*n, one-sided index bounds included): the restricted "
              "character has exact period n; the DFT of the same samples agrees at common frequencies (function and list level); and, composing "
              "the merged models, entry k on the coarse grid = entry c*k on the fine grid for speriodogram (real/complex, every window, every "
              "detrend value) and the Periodogram object after any common history, CORRELOGRAMPSD under NFFT >= 2 lag + 1 (same exceptions), "
              "arma2psd under NFFT > max(len A, len B), minvar under NFFT >= 2 order - 1 (identical AR vector and reflection coefficients), pmtm / "
              "MultiTapering with unity and eigen weights (identical eigenvalues and weights), eigen / pmusic / pev under NFFT >= P (identical "
              "errors and singular values), and every store form of the class pipelines (slice and doubling for both parities, flip, "
              "twosided_2_onesided, centerdc_2_twosided).  Adaptive multitaper: exact pointwise statement (after the same number of passes "
              "estimate and weights agree at common frequencies; class result exact when the two runs make the same number of passes).  "
              "Theorems over the pipeline table GENERATED from the source on this run: no class passes NFFT to its parameter estimator or "
              "computes a stored attribute from NFFT, and for every class but pdaniell the stored PSD at entry k (NFFT = n) equals entry c*k "
              "(NFFT = c*n), real and complex -- given agreement of the functional estimator's arrays, and end to end (estimator model + store) for "
              "each of the six functional estimators, which cover every class but pdaniell.  The DFT specification is tied to numpy.fft and the speriodogram model to the implementation by "
              "binary64 in-Coq correspondences on pairs of grids; a search compares every class and five functional forms on NFFT and c*NFFT "
              "and the model parameters.")
TRUSTED = ["Coq 8.16.1 kernel + vm_compute", "numpy.fft.fft modelled by the DFT specification (validated by the correspondence of this run)",
           "the fail-closed AST translator tools/props/_pipelines.py and the interpreter coq/Model/PipelineLib.v (validated against real objects by C08)",
           "the estimator models of coq/Model (Periodogram, Arma2psd, Minvar, Mtm, Eigen) are tied to the source by the correspondences of C01, C08, C16, C19, C17; "
           "here the speriodogram model is re-tied on grid pairs", "Python harness"]
UNPROVED = ["adaptive multitaper without the equal-number-of-passes hypothesis: not a theorem (the stopping test is a grid-wide mean against 0.0005 sig2/NFFT, "
            "so the two runs may stop after different numbers of passes): compared at rtol 1e-3 by search; the pointwise and equal-passes statements are proved",
            "NFFT-independence of ar/ma/rho/reflection is proved as 'the parameter estimator is not passed NFFT and no stored attribute is computed from NFFT' "
            "(generated table) and checked on the attributes by search; the parameter estimators themselves belong to C09-C14",
            "pdaniell (Daniell smoothing averages neighbouring bins of the NFFT grid, a different estimator per grid) is outside the property and excluded from class_grid"]
ASSUMPTIONS = ["exact arithmetic in the theorems", "scale_by_freq off (the property's setting)"]
RULE = ("every class x real/complex data x admissible NFFT (even, odd) x c in {2,3,4}; common frequencies: entry k of the coarse estimate vs entry "
        "c*k of the fine one; non-trivial = non-constant data")

PRE = """From Coq Require Import PrimFloat.
Require Import Spectrum.Theory.Ops Spectrum.Theory.Vec Spectrum.Theory.Dft Spectrum.Proofs.GridTheory Spectrum.Instances.FloatC Spectrum.Instances.FloatTw Spectrum.Instances.QcC.
(* fine-grid model transform read at bins c*k, against numpy on the coarse grid; and the coarse model built from the coarsened character *)
Definition grid_case (tol : float) (c : nat) (tblfine x implcoarse : list FloatC) : bool :=
  let n := Nat.div (length tblfine) c in
  let fine := @dft _ fc_ops (tw_table tblfine) (length tblfine) x in
  fc_close_rel tol 0x1p-40%float (mk n (fun k => nthF (OF:=fc_ops) fine (c * k))) implcoarse
  && fc_close_rel tol 0x1p-40%float (@dft _ fc_ops (coarsen c (tw_table tblfine)) n x) implcoarse.
Local Open Scope float_scope.
"""

GEN_NAMES = ['table_complete_c05', 'params_independent_of_nfft', 'class_grid', 'class_grid_periodogram', 'class_grid_correlogram',
             'class_grid_arma2psd', 'class_grid_minvar', 'class_grid_mtm', 'class_grid_eigen', 'class_grid_covers']

PRE_PER = """From Coq Require Import PrimFloat ZArith List.
Require Import Spectrum.Theory.Ops Spectrum.Theory.Vec Spectrum.Theory.Dft Spectrum.Model.Corr Spectrum.Model.Periodogram Spectrum.Proofs.GridTheory
               Spectrum.Instances.FloatC Spectrum.Instances.FloatTw Spectrum.Instances.QcC.
Import ListNotations.
Local Open Scope float_scope.
Definition R2C (l : list float) : list FloatC := map (fun a => (a, 0)) l.
(* the model of speriodogram on the fine grid read at bins c*k, and on the coarse grid with the coarsened character,
   against the implementation on the coarse grid *)
Definition per_grid_case (tol : float) (c : nat) (tblfine x : list FloatC) (w : list float) (isreal : bool) (dt : pyval) (impl : list float) : bool :=
  let nf := length tblfine in
  let n := Nat.div nf c in
  let fine := @speriodogram _ fc_ops (tw_table tblfine) (0x1p+0, 0) x (R2C w) (Some nf) isreal dt PyFalse (0x1p+0, 0) in
  let coarse := @speriodogram _ fc_ops (coarsen c (tw_table tblfine)) (0x1p+0, 0) x (R2C w) (Some n) isreal dt PyFalse (0x1p+0, 0) in
  fc_close_rel tol 0x1p-40 (mk (nbins isreal n) (fun k => nthF (OF:=fc_ops) fine (c * k))) (R2C impl)
  && fc_close_rel tol 0x1p-40 coarse (R2C impl).
"""


def admissible_nfft(cls, cfg, N, rng):
    base = int(rng.choice([N, N + 1, N + 2, N + 3, 2 * N + 1, 32, 33, 48]))
    base = max(base, N)
    if cls == 'pcorrelogram':
        base = max(base, 2 * cfg['lag'] + 1)
    if cls == 'pminvar':
        base = max(base, 2 * cfg['order'])
    if rng.integers(0, 3) == 0:
        # the smallest admissible grid of the class (the statement's bounds), and the one just above it
        lo = {'Periodogram': N, 'MultiTapering': N, 'pcorrelogram': 2 * cfg.get('lag', 0) + 1, 'pminvar': 2 * cfg.get('order', 0),
              'pburg': cfg.get('order', 0) + 1, 'pyule': cfg.get('order', 0) + 1, 'pcovar': cfg.get('order', 0) + 1, 'pmodcovar': cfg.get('order', 0) + 1,
              'parma': max(cfg.get('P', 0), cfg.get('Q', 0)) + 1, 'pma': cfg.get('Q', 0) + 1}.get(cls)
        if lo is not None:
            base = lo + int(rng.integers(0, 2))
    return base


def check_case(cls, x, cfg, NFFT, c, sampling=1.0):
    """None if the clause holds, else a description"""
    cfg = dict(cfg); detrend = cfg.pop('detrend', 'unset')
    p0 = E.build(cls, x, cfg, NFFT=NFFT, sampling=sampling, scale_by_freq=False)
    p1 = E.build(cls, x, cfg, NFFT=c * NFFT, sampling=sampling, scale_by_freq=False)
    if detrend != 'unset':
        p0.detrend = detrend; p1.detrend = detrend          # the attribute of the Fourier classes (constructor argument is not stored)
    s0 = np.array(p0.psd); s1 = np.array(p1.psd)
    f0 = np.array(p0.frequencies()); f1 = np.array(p1.frequencies())
    if len(f0) != len(s0) or len(f1) != len(s1):
        return 'psd and frequencies() differ in length'
    rtol = 1e-3 if (cls == 'MultiTapering' and cfg.get('method') == 'adapt') else 1e-7
    idx = c * np.arange(len(s0))
    ok = idx < len(s1)
    if not np.all(ok):
        return 'the fine grid has no entry for coarse entry %d' % int(np.argmin(ok))
    if np.max(np.abs(f1[idx] - f0)) > 1e-9 * max(1.0, sampling):
        return 'entry k of the coarse axis and entry c*k of the fine axis are different frequencies'
    a = s1[idx]; scale = max(np.max(np.abs(s0)), 1e-300)
    if not (np.all(np.isfinite(a)) and np.all(np.isfinite(s0))):
        return 'non-finite estimate'
    err = np.max(np.abs(a - s0)) / scale
    if err > rtol:
        return 'estimates differ at a common frequency (entry %d; relative error %.3g)' % (int(np.argmax(np.abs(a - s0))), err)
    m0 = E.model_params(p0); m1 = E.model_params(p1)
    for k in m0:
        if k == 'weights' and cls == 'MultiTapering' and cfg.get('method') == 'adapt':
            continue                     # per-frequency weights: not a model parameter
        if k not in m1 or m0[k].shape != m1[k].shape:
            return 'model parameter %s changes shape with NFFT' % k
        e = np.max(np.abs(m0[k] - m1[k])) / max(np.max(np.abs(m0[k])), 1e-300)
        if e > 1e-9:
            return 'model parameter %s depends on NFFT (relative difference %.3g)' % (k, e)
    return None


def regrid_change(cls, cfg, which):
    """(attribute, new value) changed between two NFFT assignments on one object; which = 0: the data, 1: a class-specific setting"""
    if which == 0 or cls == 'MultiTapering':
        return ('data', None)
    if cls == 'Periodogram':
        return ('window', 'bartlett' if cfg.get('window') != 'bartlett' else 'hann')
    if cls == 'pcorrelogram':
        return ('lag', cfg['lag'] + 1)
    if cls in ('pburg', 'pyule', 'pcovar', 'pmodcovar', 'pminvar'):
        return ('ar_order', cfg['order'] + 1)
    if cls in ('pmusic', 'pev'):
        return ('ar_order', cfg['IP'] + 1)
    if cls in ('parma', 'pma'):
        return ('ma_order', cfg['Q'] + 1)
    raise KeyError(cls)


def check_regrid(cls, x, x2, cfg, NFFT, c, which, sampling=1.0):
    """ONE object: read at NFFT, NFFT := c*NFFT, change something, read, NFFT := NFFT again, read.  The last read must be the
    estimate of a fresh object with the final settings on the coarse grid and agree with the fine-grid read at common frequencies
    (the NFFT setter keeps the data and recomputes only the grid).  None if it holds, else a description"""
    attr, val = regrid_change(cls, cfg, which)
    if attr == 'data':
        val = x2
    p = E.build(cls, x, cfg, NFFT=NFFT, sampling=sampling, scale_by_freq=False)
    _ = np.array(p.psd)
    p.NFFT = c * NFFT
    setattr(p, attr, val)
    s1 = np.array(p.psd); f1 = np.array(p.frequencies())
    p.NFFT = NFFT
    s2 = np.array(p.psd); f2 = np.array(p.frequencies())
    q = E.build(cls, x, cfg, NFFT=NFFT, sampling=sampling, scale_by_freq=False)
    setattr(q, attr, val)
    ref = np.array(q.psd)
    if len(s2) != len(f2) or len(s1) != len(f1):
        return 'psd and frequencies() differ in length after NFFT was re-assigned'
    if s2.shape != ref.shape:
        return 'after returning to NFFT=%d the object holds %d values, a fresh object %d' % (NFFT, len(s2), len(ref))
    rtol = 1e-3 if (cls == 'MultiTapering' and cfg.get('method') == 'adapt') else 1e-7
    scale = max(np.max(np.abs(ref)), 1e-300)
    if not np.all(np.isfinite(s2)) or np.max(np.abs(s2 - ref)) / scale > 1e-9:
        return ('after NFFT: %d -> %d, %s changed, NFFT -> %d the estimate differs from a fresh object with the same settings '
                '(relative error %.3g)' % (NFFT, c * NFFT, attr, NFFT, np.max(np.abs(s2 - ref)) / scale))
    idx = c * np.arange(len(s2))
    if np.any(idx >= len(s1)):
        return 'the fine grid has no entry for a coarse entry'
    err = np.max(np.abs(s1[idx] - s2)) / scale
    if err > rtol:
        return 'the two grids of one object disagree at a common frequency after %s changed (relative error %.3g)' % (attr, err)
    return None


def fn_eval(name, x, cfg, NFFT):
    from spectrum import speriodogram, CORRELOGRAMPSD, arma2psd, minvar, pmtm
    if name == 'speriodogram':
        return np.asarray(speriodogram(x, NFFT=NFFT, detrend=cfg['detrend'], window=cfg['window'], scale_by_freq=False))
    if name == 'CORRELOGRAMPSD':
        return np.asarray(CORRELOGRAMPSD(x, lag=cfg['lag'], NFFT=NFFT, window=cfg['window'], norm=cfg['norm']))
    if name == 'arma2psd':
        if cfg.get('pairs'):
            cfg = dict(cfg, A=[complex(a, b) for a, b in cfg['A']], B=[complex(a, b) for a, b in cfg['B']])
        kw = {} if cfg.get('sides') in (None, 'omitted') else {'sides': cfg['sides']}
        return np.asarray(arma2psd(A=np.array(cfg['A']), B=np.array(cfg['B']), rho=cfg['rho'], T=cfg['T'], NFFT=NFFT, **kw))
    if name == 'minvar':
        return np.asarray(minvar(x, cfg['order'], NFFT=NFFT)[0])
    if name == 'pmtm':
        Sk, w, ev = pmtm(x, NW=cfg['NW'], k=cfg['k'], NFFT=NFFT, method=cfg['method'])
        return np.abs(np.asarray(Sk)) ** 2          # eigenspectra, one row per taper
    raise KeyError(name)


def check_fn(name, x, cfg, NFFT, c):
    s0 = fn_eval(name, x, cfg, NFFT); s1 = fn_eval(name, x, cfg, c * NFFT)
    idx = c * np.arange(s0.shape[-1])
    if cfg.get('sides') == 'centerdc':
        # the centred layout: entry j of an n-point grid is bin j - n//2 (negative frequencies first, DC at n//2)
        n = s0.shape[-1]; idx = c * (np.arange(n) - n // 2) + (c * n) // 2
    if np.any(idx >= s1.shape[-1]):
        return 'the fine grid has no entry for a coarse entry'
    a = s1[..., idx]
    fin = np.isfinite(s0)
    if not np.array_equal(fin, np.isfinite(a)):
        return 'finite on one grid and not on the other at a common frequency'
    if not np.any(fin):
        return 'non-finite estimate'
    # (a coefficient vector with a zero exactly on a grid frequency gives the same infinite value on both grids)
    err = np.max(np.abs(a[fin] - s0[fin])) / max(np.max(np.abs(s0[fin])), 1e-300)
    return None if err <= 1e-7 else 'values differ at a common frequency (relative error %.3g)' % err


def replay(rep):
    if rep.get('replay', {}).get('form') == 'routes':
        from props import _estimators as E_
        return E_.replay_routes(rep['replay'])
    r = rep['replay']; x = vlib.unhexv(r['x'])
    if r['datatype'] == 'real':
        x = np.real(x)
    try:
        if r.get('form') == 'regrid':
            x2 = vlib.unhexv(r['x2'])
            if r['datatype'] == 'real':
                x2 = np.real(x2)
            return check_regrid(r['estimator'], x, x2, r['cfg'], r['NFFT'], r['c'], r['which'], r.get('sampling', 1.0)) is None
        if r.get('form') == 'function':
            return check_fn(r['estimator'], x, r['cfg'], r['NFFT'], r['c']) is None
        return check_case(r['estimator'], x, r['cfg'], r['NFFT'], r['c'], r.get('sampling', 1.0)) is None
    except Exception:
        return False


def jcfg(cfg):
    return {k: (v.item() if isinstance(v, (np.integer, np.floating)) else v) for k, v in cfg.items()}


def run(ctx):
    rng = ctx.rng
    ctx.check_theorems('Properties/C05.v')
    # the estimate an object holds does not depend on the history that gave it its data and settings (every route of _estimators.via)
    from props import _estimators as E_
    E_.class_route_stream(ctx, E_.CLASSES, 'routes')

    # ---------------- translator + theorems over the generated pipeline table
    src = os.path.join(vlib.SNAP, 'src', 'spectrum')
    table_v = None
    try:
        tab = P.extract(src)
        table_v = P.gallina(tab)
    except P.Fail as e:
        for n in GEN_NAMES:
            ctx.obligations.append((n, False, []))
        ctx.broken.append({'theorem': 'translator:pipelines (source outside the recognised shapes)', 'where': src, 'log': str(e)})
    if table_v is not None:
        thm = open(os.path.join(os.path.dirname(os.path.abspath(__file__)), '_c05_theorems.v.in')).read()
        ctx.check_generated('C05_pipelines', table_v + thm, GEN_NAMES)

    cases = []; meta = []
    for _ in range(ctx.q(40, 300)):
        n = int(rng.integers(1, ctx.q(16, 32))); c = int(rng.integers(1, 5)); N = int(rng.integers(1, n + 1))
        x = (rng.integers(-64, 65, size=N) + 1j * rng.integers(-64, 65, size=N)) / 8.0
        impl = np.fft.fft(x, n)
        tbl = [cmath.exp(-2j * cmath.pi * j / (c * n)) for j in range(c * n)]
        cases.append('grid_case 0x1p-36 %d%%nat %s %s %s' % (c, fcl(tbl), fcl(x), fcl(impl)))
        meta.append({'function': 'numpy.fft.fft', 'n': n, 'c': c, 'N': N})
        ctx.count('corr/grid/c=%d' % c)
        ctx.case(('grid', x.tobytes(), n, c), nontrivial=(n >= 3 and c >= 2), sample={'function': 'fft(x, n) vs model fft(x, c*n)[c*k]', 'n': n, 'c': c, 'N': N})
    for i in ctx.coq_cases('c05_grid', PRE, cases, shard=20, descr='numpy.fft.fft on the coarse grid vs the DFT specification on the fine grid at bins c*k (binary64)'):
        ctx.corr_disagreement('numpy.fft.fft', i, meta[i])

    # ---------------- speriodogram model on grid pairs (incl. mean removal) vs the implementation on the coarse grid
    from spectrum import speriodogram
    from spectrum.window import Window
    cases = []; meta = []
    for it in range(ctx.q(24, 160)):
        n = int(rng.integers(2, ctx.q(13, 25))); c = int(rng.integers(1, 4)); N = int(rng.integers(2, n + 1))
        cplx = bool(it % 2); dt = ['PyTrue', 'PyFalse', 'PyNone', 'PyTrue'][(it // 2) % 4]
        name = E.pick_window(rng, ['hann', 'hamming', 'rectangular', 'blackman']) if N >= 8 else str(rng.choice(['hann', 'hamming', 'rectangular', 'blackman']))
        x = rng.integers(-64, 65, size=N) / 8.0 + float(rng.integers(0, 5))
        if cplx:
            x = x + 1j * (rng.integers(-64, 65, size=N) / 8.0 + 2.0)
        w = np.asarray(Window(N, name).data, dtype=float)
        impl = np.asarray(speriodogram(x, NFFT=n, detrend={'PyTrue': True, 'PyFalse': False, 'PyNone': None}[dt], scale_by_freq=False, window=name), dtype=float)
        tbl = [cmath.exp(-2j * cmath.pi * j / (c * n)) for j in range(c * n)]
        cases.append('per_grid_case 0x1p-30 %d%%nat %s %s %s %s %s %s' % (c, fcl(tbl), fcl(np.asarray(x, dtype=complex)), fll(w),
                                                                     'false' if cplx else 'true', dt, fll(impl)))
        meta.append({'function': 'speriodogram', 'n': n, 'c': c, 'N': N, 'detrend': dt, 'window': name, 'complex': cplx})
        ctx.count('corr/speriodogram_grid/%s/%s' % ('complex' if cplx else 'real', dt))
        ctx.case(('pergrid', x.tobytes(), n, c, dt, name), nontrivial=(c >= 2 and n > N),
                 sample={'function': 'speriodogram(x, n) vs model speriodogram(x, c*n)[c*k]', 'n': n, 'c': c, 'N': N, 'detrend': dt, 'window': name})
    for i in ctx.coq_cases('c05_speriodogram_grid', PRE_PER, cases, shard=20,
                           descr='speriodogram on the coarse grid vs the Gallina model on the fine grid at bins c*k and on the coarse grid (binary64, mean removal included)'):
        ctx.corr_disagreement('speriodogram', i, meta[i])

    for it in range(ctx.q(30, 150) * len(E.CLASSES)):
        cls = E.CLASSES[it % len(E.CLASSES)]
        cplx = bool((it // len(E.CLASSES)) % 2); N = int(rng.integers(16, 41))
        x, kind = E.gen_data(rng, N, cplx)
        cfg = E.default_cfg(cls, N, rng, cplx)
        if rng.integers(0, 3) == 0:
            x = x + (3.0 + (2.0j if cplx else 0))          # data with a large mean
        if cls in ('Periodogram', 'pcorrelogram') and rng.integers(0, 2):
            cfg['detrend'] = [None, 'mean'][int(rng.integers(0, 2))]
        NFFT = admissible_nfft(cls, cfg, N, rng); c = int(rng.choice([2, 3, 4]))
        sampling = float(rng.choice([1.0, 7.5, 1024.0]))
        tag = 'complex' if cplx else 'real'
        ctx.count('search/%s/%s/%s' % (cls, tag, 'NFFT-even' if NFFT % 2 == 0 else 'NFFT-odd'))
        ctx.case((cls, json.dumps(jcfg(cfg), sort_keys=True), NFFT, c, x.tobytes()), nontrivial=True,
                 sample={'estimator': cls, 'cfg': jcfg(cfg), 'N': N, 'NFFT': NFFT, 'c': c, 'datatype': tag, 'kind': kind})
        rep = {'estimator': cls, 'cfg': jcfg(cfg), 'NFFT': NFFT, 'c': c, 'sampling': sampling, 'x': vlib.hexv(np.asarray(x, dtype=complex)), 'datatype': tag}
        try:
            what = check_case(cls, x, cfg, NFFT, c, sampling)
        except Exception as e:
            what = 'raised %s: %s' % (type(e).__name__, str(e)[:100])
        if what is not None:
            ctx.violation('grid/%s/%s/%s' % (cls, tag, 'NFFT-even' if NFFT % 2 == 0 else 'NFFT-odd'),
                          '%s (%s data, NFFT=%d vs %d): %s' % (cls, tag, NFFT, c * NFFT, what), rep)

    # ---------------- every NAMED window once per class that takes one (a change may concern one name only), with and without mean removal
    for wi, wname in enumerate(E.ALL_WINDOWS):
        for cls in ('Periodogram', 'pcorrelogram'):
            cplx = bool(wi % 2); N = 18 + wi % 9; x, kind = E.gen_data(rng, N, cplx)
            x = x + (2.0 + (1.0j if cplx else 0))
            cfg = {'window': wname} if cls == 'Periodogram' else {'lag': 4 + wi % 5, 'window': wname}
            cfg['detrend'] = [None, 'mean'][(wi // 2) % 2]
            NFFT = max([N, N + 3, 2 * N][wi % 3], 2 * cfg.get('lag', 0) + 2); c = [2, 3][wi % 2]; tag = 'complex' if cplx else 'real'
            ctx.count('search/windows/%s' % cls)
            ctx.case(('window', cls, wname, NFFT, c, x.tobytes()), nontrivial=True,
                     sample={'estimator': cls + ' (every named window)', 'window': wname, 'N': N, 'NFFT': NFFT, 'c': c} if wi == 9 else None)
            rep = {'estimator': cls, 'cfg': jcfg(cfg), 'NFFT': NFFT, 'c': c, 'sampling': 1.0, 'x': vlib.hexv(np.asarray(x, dtype=complex)), 'datatype': tag}
            try:
                what = check_case(cls, x, cfg, NFFT, c, 1.0)
            except Exception as e:
                what = 'raised %s: %s' % (type(e).__name__, str(e)[:100])
            if what is not None:
                ctx.violation('grid/%s/%s/window_%s' % (cls, tag, wname), '%s with window %r (%s data, NFFT=%d vs %d): %s' % (cls, wname, tag, NFFT, c * NFFT, what), rep)

    # ---------------- one object whose NFFT is re-assigned (the NFFT setter keeps the data and recomputes only the grid)
    for it in range(ctx.q(8, 40) * len(E.CLASSES)):
        cls = E.CLASSES[it % len(E.CLASSES)]
        cplx = bool((it // len(E.CLASSES)) % 2); N = int(rng.integers(16, 41))
        x, kind = E.gen_data(rng, N, cplx); x2, _ = E.gen_data(rng, N, cplx)
        cfg = E.default_cfg(cls, N, rng, cplx)
        which = int(rng.integers(0, 3) > 0)
        NFFT = max(admissible_nfft(cls, cfg, N, rng), 2 * cfg.get('lag', 0) + 3 if cls == 'pcorrelogram' else 0, 2 * cfg.get('order', 0) + 2 if cls == 'pminvar' else 0)
        chg = regrid_change(cls, cfg, which)
        if chg[0] in ('ar_order', 'ma_order'):
            NFFT = max(NFFT, chg[1] + 2)                  # admissible for the order assigned later as well
        c = int(rng.choice([2, 3, 4])); tag = 'complex' if cplx else 'real'
        ctx.count('search/regrid/%s/%s' % (cls, tag))
        ctx.case(('regrid', cls, json.dumps(jcfg(cfg), sort_keys=True), NFFT, c, which, x.tobytes()), nontrivial=True,
                 sample={'estimator': cls, 'cfg': jcfg(cfg), 'N': N, 'history': 'read; NFFT:=%d; %s changed; read; NFFT:=%d; read' % (c * NFFT, regrid_change(cls, cfg, which)[0], NFFT)})
        rep = {'form': 'regrid', 'estimator': cls, 'cfg': jcfg(cfg), 'NFFT': NFFT, 'c': c, 'which': which, 'x': vlib.hexv(np.asarray(x, dtype=complex)),
               'x2': vlib.hexv(np.asarray(x2, dtype=complex)), 'datatype': tag}
        try:
            what = check_regrid(cls, x, x2, cfg, NFFT, c, which)
        except Exception as e:
            what = 'raised %s: %s' % (type(e).__name__, str(e)[:100])
        if what is not None:
            ctx.violation('regrid/%s/%s' % (cls, tag), '%s (%s data): %s' % (cls, tag, what), rep)

    # ---------------- functional forms (incl. mean removal, explicit coefficient vectors)
    FN = ['speriodogram', 'CORRELOGRAMPSD', 'arma2psd', 'minvar', 'pmtm']
    for it in range(ctx.q(12, 80) * len(FN)):
        name = FN[it % len(FN)]
        cplx = bool((it // len(FN)) % 2); N = int(rng.integers(12, 41))
        x, kind = E.gen_data(rng, N, cplx)
        if rng.integers(0, 2):
            x = x + (3.0 + (2.0j if cplx else 0))
        c = int(rng.choice([2, 3, 4])); NFFT = int(rng.choice([N, N + 1, N + 2, N + 3, 2 * N + 1, 32, 33, 48])); NFFT = max(NFFT, N)
        if name == 'speriodogram':
            cfg = {'detrend': bool(rng.integers(0, 2)), 'window': E.pick_window(rng, ['hann', 'hamming', 'rectangular', 'blackman'])}
        elif name == 'CORRELOGRAMPSD':
            lag = int(rng.integers(2, N // 2)); cfg = {'lag': lag, 'window': E.pick_window(rng, ['hamming', 'hann', 'rectangular']), 'norm': str(rng.choice(['biased', 'unbiased']))}
            NFFT = max(NFFT, 2 * lag + 1)
            if rng.integers(0, 3) == 0:
                NFFT = 2 * lag + 1 + int(rng.integers(0, 2))          # the smallest admissible grid
        elif name == 'arma2psd':
            pa = int(rng.integers(0, 6)); pb = int(rng.integers(0, 6))
            A = (rng.integers(-8, 9, size=pa) + (1j * rng.integers(-8, 9, size=pa) if cplx else 0)) / 16.0
            B = (rng.integers(-8, 9, size=pb) + (1j * rng.integers(-8, 9, size=pb) if cplx else 0)) / 16.0
            cfg = {'A': [complex(t) for t in A], 'B': [complex(t) for t in B], 'rho': float(rng.integers(1, 9)) / 4, 'T': float(rng.choice([1.0, 0.5, 8.0])),
                   'sides': ['omitted', 'default', 'centerdc', 'centerdc'][(it // len(FN)) % 4]}
            NFFT = int(rng.integers(max(pa, pb) + 1, max(pa, pb) + 12))
        elif name == 'minvar':
            m = int(rng.integers(2, min(N // 4, 8) + 1)); cfg = {'order': m}; NFFT = max(NFFT, 2 * m) if rng.integers(0, 3) else 2 * m + int(rng.integers(0, 2))
        else:
            NW = float(rng.choice([2.0, 2.5, 3.0])); cfg = {'NW': NW, 'k': int(rng.integers(1, int(2 * NW))), 'method': str(rng.choice(['unity', 'eigen']))}
        tag = 'complex' if cplx else 'real'
        jc = {k: ([[t.real, t.imag] for t in v] if isinstance(v, list) else v) for k, v in cfg.items()}
        ctx.count('search/function/%s/%s' % (name, tag))
        ctx.case(('fn', name, json.dumps(jc, sort_keys=True), NFFT, c, x.tobytes()), nontrivial=True,
                 sample={'estimator': name, 'cfg': jc if name != 'arma2psd' else {'orders': [len(cfg['A']), len(cfg['B'])]}, 'N': N, 'NFFT': NFFT, 'c': c, 'datatype': tag})
        if name == 'arma2psd':
            cfgr = dict(cfg)
        rep = {'form': 'function', 'estimator': name, 'cfg': cfg if name != 'arma2psd' else None, 'NFFT': NFFT, 'c': c,
               'x': vlib.hexv(np.asarray(x, dtype=complex)), 'datatype': tag}
        if name == 'arma2psd':
            rep['cfg'] = {'A': [[t.real, t.imag] for t in cfg['A']], 'B': [[t.real, t.imag] for t in cfg['B']], 'rho': cfg['rho'], 'T': cfg['T'], 'pairs': True, 'sides': cfg['sides']}
        try:
            what = check_fn(name, x, cfg, NFFT, c)
        except Exception as e:
            what = 'raised %s: %s' % (type(e).__name__, str(e)[:100])
        if what is not None:
            ctx.violation('grid/%s/%s/%s' % (name, tag, 'NFFT-even' if NFFT % 2 == 0 else 'NFFT-odd'), '%s (%s data, NFFT=%d vs %d): %s' % (name, tag, NFFT, c * NFFT, what), rep)
