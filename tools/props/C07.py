"""C07 — the PSD attribute is never stale (translator-based: the model is regenerated from the snapshot on every run)."""
import itertools, json, os, re, shutil, threading, time
from concurrent.futures import ProcessPoolExecutor, ThreadPoolExecutor
import numpy as np
import vlib
from props import _c07_translate as TR
from props import _c07_proofs as PR
from props import _c07_replay as R
from props import _c07_tie as T

LEVEL_TEXT = ("psd.py (Range, Spectrum, FourierSpectrum, ParametricSpectrum: every setter/getter, the psd getter/setter, "
              "get_converted_psd, frequencies, scale, the constructors) and the __init__/__call__ of the twelve estimator classes of "
              "the SNAPSHOT are translated on every run by a fail-closed ast translator into a Gallina state machine over a hand-written "
              "combinator prelude; coqc then re-proves over the generated machine, for each class: the invariant holds after the "
              "constructor, every operation of the alphabet preserves it, hence it holds after every history of any length (induction), "
              "a read returns the estimate of the current attribute values in the layout `sides` names, df = sampling/NFFT, "
              "frequencies() has the length of psd, and re-assigning an attribute with its own value changes neither the attribute values "
              "nor the estimate read afterwards.  The generated machine is tied to the implementation by replaying exhaustive short "
              "histories and random longer ones on real objects of all 12 classes (real and complex data) and inside Coq (vm_compute), "
              "comparing everything an observer sees after every operation; psd values are compared with freshly constructed objects.")
TRUSTED = ["Coq 8.16.1 kernel + vm_compute (no native_compute)",
           "the ast translator tools/props/_c07_translate.py (fail-closed) and the combinator prelude coq/Model/PsdMachineLib.v it targets; "
           "validated on every run by the replay tie (machine vs real objects, exact agreement of all observables)",
           "abstraction of PSD arrays to (attribute snapshot, layout, length, scaling): the numerical estimator is uninterpreted, a side "
           "conversion acts on layout and length (that it maps the true spectrum to the true spectrum is C06); exercised numerically by "
           "the fresh-object oracle on every replay",
           "Python equality on the typed value domain of the alphabet (None, bool, str, int, float, arrays by identity): cross-type "
           "equalities such as True == 1 are outside the modelled domain",
           "Python harness (snapshot, replay engine, packing of observations)"]
UNPROVED = ["numerical equality of psd with a freshly constructed object: search only (the estimate is uninterpreted in the machine)",
            "attributes outside the operation alphabet (NSIG, threshold, criteria, NW, k, method, norm, data_y, ma of pburg) are constructor constants",
            "estimator-internal domain errors (e.g. an order the estimator rejects) are outside the machine; histories stay inside the domains"]
ASSUMPTIONS = ["operations carry values of the documented types (data arrays, numeric sampling, boolean scale_by_freq); NFFT, sides, "
               "window, detrend, lag and the orders are arbitrary values in the theorems",
               "constructor theorems are for numeric sampling and boolean scale_by_freq",
               "single-threaded use of an object"]
RULE = ("all histories of length <= L over a per-class alphabet of 17-19 operation instances (every setter with a new value, data of the "
        "other type, call, read, get_converted_psd, frequencies) x 12 classes x real/complex data, plus random histories of length 4-10 "
        "with richer values incl. invalid ones; a case is a (class, data, history) triple; non-trivial = history length >= 2")

STALE_FIRST = ['read_is_fresh', 'read_none', 'read_raises', 'modified_after_read', 'df_consistent', 'freq_len_psd',
               'reassign_idempotent', 'fresh_refuses', 'converted_is_fresh', 'converted_refused', 'converted_none']


# ----------------------------------------------------------------------------- Coq: proofs over the generated machine
def coqc_file(work, name, timeout=900):
    t0 = time.time()
    rc, out, err = vlib.run_coqc(os.path.join(work, name + '.v'), extra_R=[(work, 'Gen')], timeout=timeout)
    return name, rc, out, err, time.time() - t0


def failing_lemma(text, err):
    m = re.search(r'line (\d+), characters', err)
    if not m:
        return None
    upto = text.split('\n')[:int(m.group(1))]
    for l in reversed(upto):
        mm = re.match(r'\s*(Theorem|Lemma|Example|Definition)\s+([A-Za-z0-9_\']+)', l)
        if mm:
            return mm.group(2)
    return None


def run_proofs(ctx, work, info, result):
    """compiles the generated proof files stage by stage (files of a stage in parallel)"""
    try:
        plan = PR.build_plan(info)
        alltheorems = []
        ok = True
        timings = {}
        for stage in plan:
            for n, t, _ in stage:
                open(os.path.join(work, n + '.v'), 'w').write(t)
            if not ok:
                for n, t, names in stage:
                    alltheorems += [(x, False) for x in names]
                continue
            with ThreadPoolExecutor(max_workers=16) as ex:
                res = list(ex.map(lambda n: coqc_file(work, n), [n for n, _, _ in stage]))
            texts = {n: t for n, t, _ in stage}
            for (n, t, names), (_, rc, out, err, dt) in zip(stage, res):
                timings[n] = round(dt, 1)
                if rc != 0:
                    ok = False
                    bad = failing_lemma(texts[n], err)
                    seen_bad = False
                    for x in names:
                        if x == bad:
                            seen_bad = True
                        alltheorems.append((x, (not seen_bad) and bad in names))
                    result['broken'].append({'theorem': 'generated:%s.%s' % (n, bad or '?'), 'where': os.path.join(work, n + '.v'),
                                             'log': (out + err)[-2500:]})
                    keep = os.path.join(vlib.HOME, 'out', 'broken'); os.makedirs(keep, exist_ok=True)
                    shutil.copy(os.path.join(work, n + '.v'), os.path.join(keep, 'C07_%s.v' % n))
                else:
                    alltheorems += [(x, True) for x in names]
        axioms = ['(not printed: a proof over the generated machine failed)']
        if ok:
            # one Print Assumptions over everything
            mods = [n for st in plan[1:] for n, _, _ in st]
            names = [x for x, _ in alltheorems]
            t = PR.HEADER.replace('Gen.C07Machine.', 'Gen.C07Machine ' + ' '.join('Gen.' + n for n in mods) + '.')
            t += 'Definition c07_everything := (%s).\nPrint Assumptions c07_everything.\n' % ', '.join('@' + x for x in names)
            open(os.path.join(work, 'C07Check.v'), 'w').write(t)
            _, rc, out, err, dt = coqc_file(work, 'C07Check')
            timings['C07Check'] = round(dt, 1)
            if rc != 0:
                result['broken'].append({'theorem': 'generated:C07Check', 'where': 'C07Check.v', 'log': (out + err)[-2000:]})
            else:
                blocks = vlib.parse_assumptions(out)
                axioms = blocks[0] if blocks else ['(not printed)']
        result['theorems'] = [(x, o, axioms if o else []) for x, o in alltheorems]
        result['timings'] = timings
    except Exception as e:                                         # pragma: no cover
        import traceback
        result['broken'].append({'theorem': 'generated:proof pipeline', 'where': 'run_proofs', 'log': traceback.format_exc()[-2500:]})


# ----------------------------------------------------------------------------- random histories
def value_tables(name):
    t = {'NFFT': [None, 'nextpow2', 24, 32, 33, 45, 64, 0, -3, 2.5], 'sampling': T.SAMPLINGS,
         'detrend': [None, 'mean', 'linear'], 'scale_by_freq': [True, False],
         'sides': ['onesided', 'twosided', 'centerdc', 'default', 'both'],
         'window': ['hann', 'hamming', 'bartlett', 'rectangular', 'nope'],
         'lag': [8, 9] if name == 'parma' else [4, 5, 6],
         'ar_order': {'pma': [8, 9, 10], 'pmusic': [5, 6, 7], 'pev': [5, 6, 7]}.get(name, [2, 3, 4]) + [None, -1],
         'ma_order': [1, 2, 3, -1] + ([] if name in ('parma', 'pma') else [None])}
    return t


def random_history(rng, name, n):
    tabs = value_tables(name)
    attrs = [a for a in ['data', 'NFFT', 'sampling', 'detrend', 'scale_by_freq', 'sides', 'window', 'lag', 'ar_order', 'ma_order']
             if R.has_attr(name, a)]
    ops = []
    for _ in range(n):
        k = rng.integers(0, 10)
        if k < 5:
            a = attrs[int(rng.integers(0, len(attrs)))]
            if a == 'data':
                ops.append(('set', 'data', ['r0', 'r1', 'c0', 'c1', 'r0', 'r1', 'c0', 'c1', 'r0p', 'c0p', 'r0t', 'r0u', 'c0t', 'c0u'][int(rng.integers(0, 14))]))
            else:
                v = tabs[a][int(rng.integers(0, len(tabs[a])))]
                ops.append(('set', a, v))
        elif k == 5:
            ops.append(('reassign', attrs[int(rng.integers(0, len(attrs)))]))
        elif k == 6:
            ops.append(('call',))
        elif k == 7:
            ops.append(('read',))
        elif k == 8:
            ops.append(('conv', ['onesided', 'twosided', 'centerdc'][int(rng.integers(0, 3))]))
        else:
            ops.append(('freq', [None, None, 'onesided', 'twosided', 'centerdc', 'default'][int(rng.integers(0, 6))]))
    return ops


def revisit_histories(name, did):
    """directed histories in which an attribute LEAVES a value and RETURNS to it while something else changes in between
    (A-B-A patterns: per-value caches, memoised grids, 'nothing changed' shortcuts keyed by the value assigned)"""
    p0 = T.init_object(name, did)
    A = [o for o in R.alphabet(name, did) if o[0] == 'set' and o[1] != 'sides']
    out = []
    for a in A:
        attr = a[1]
        v0 = did if attr == 'data' else getattr(p0, attr)
        if attr != 'data' and not isinstance(v0, (type(None), bool, int, float, str)):
            continue
        back = ('set', attr, v0)
        if back == a:
            continue
        for b in A:
            if b[1] == attr:
                continue
            out.append([('read',), a, b, back])
            out.append([('read',), a, ('read',), b, back])
            out.append([a, ('read',), back, b, a])
            out.append([('read',), a, b, ('read',), back, ('conv', 'twosided')])
    # an attribute re-assigned with ANOTHER SPELLING of the value it already has (NFFT = None while NFFT is the data length, 'nextpow2'
    # while it is that power of two, sides = 'default' while sides is the default), after something else was changed
    B = [o for o in R.alphabet(name, did) if o[0] == 'set']
    for b in B:
        out.append([('read',), b, ('set', 'NFFT', None)])
        out.append([('set', 'NFFT', 32), ('read',), b, ('set', 'NFFT', 'nextpow2')])
        out.append([('read',), b, ('set', 'sides', 'default')])
        out.append([('read',), b, ('set', 'NFFT', None), ('conv', 'centerdc')])
    # the data replaced by a record that a tolerance-based comparison cannot tell from the old one
    for d1, d2 in R.CLOSE_PAIRS:
        if d1 == did:
            out.append([('read',), ('set', 'data', d2)])
            out.append([('read',), ('set', 'data', d2), ('conv', 'twosided')])
        out.append([('set', 'data', d1), ('read',), ('set', 'data', d2)])
        out.append([('set', 'data', d2), ('read',), ('set', 'data', d1), ('read',), ('set', 'data', d2)])
    return out


NP_TYPES = {'NFFT': ['int64', 'int32', 'int16'], 'lag': ['int64', 'int32'], 'ar_order': ['int64', 'int32', 'int16'], 'ma_order': ['int64', 'int32'],
            'sampling': ['float64']}
# not in the stream, on purpose: scale_by_freq = numpy.bool_(True) (the code tests `scale_by_freq is True`, so a numpy boolean silently means
# "no scaling"; the documented type is bool) and single-precision sampling rates (df and the axis are then single precision)


def numpy_typed(rng, ops):
    """the same history with numeric / boolean values given as numpy scalars (what `for order in np.arange(2, 6): p.ar_order = order` assigns)"""
    out = []
    for o in ops:
        if o[0] == 'set' and o[1] in NP_TYPES and isinstance(o[2], (bool, int, float)) and not (o[1] == 'NFFT' and isinstance(o[2], float)):
            ts = NP_TYPES[o[1]]
            out.append(('setnp', o[1], o[2], ts[int(rng.integers(0, len(ts)))]))
        else:
            out.append(o)
    return out


def typed_job(args):
    """fresh-object oracle only (the generated machine's value domain has no numpy scalars)"""
    name, did, ops = args
    try:
        p, _, bad = R.run_history(name, did, ops)
    except Exception as e:
        return {'name': name, 'did': did, 'ops': ops, 'skip': repr(e)}
    return {'name': name, 'did': did, 'ops': ops, 'bad': bad}


def random_job(args):
    name, did, ops = args
    try:
        tr = T.py_trace(name, did, ops)
        p, _, bad = R.run_history(name, did, ops)
    except Exception as e:                                          # estimator-internal failure: outside the machine
        return {'name': name, 'did': did, 'ops': ops, 'skip': repr(e)}
    return {'name': name, 'did': did, 'ops': ops, 'trace': tr, 'bad': bad}


# ----------------------------------------------------------------------------- violations
def signature(ops):
    out = []
    for o in ops:
        if o[0] == 'set':
            out.append('set:' + o[1] + ('=' + str(o[2]) if o[1] == 'sides' else ''))
        elif o[0] == 'setnp':
            out.append('set:%s=numpy.%s(%r)' % (o[1], o[3], o[2]))
        elif o[0] == 'reassign':
            out.append('reassign:' + o[1])
        elif o[0] == 'conv':
            out.append('conv:' + o[1])
        else:
            out.append(o[0])
    return ','.join(out)


def conv_config(name, did, ops):
    """was a PSD stored (and was it stale) right before the last get_converted_psd of the history"""
    p = T.init_object(name, did)
    last = max(i for i, o in enumerate(ops) if o[0] == 'conv')
    for o in ops[:last]:
        R.apply_op(p, o)
    if p._Spectrum__psd is None:
        return 'never_computed'
    return 'stale' if p.modified else 'fresh'


def violation_key(name, did, ops, clause):
    if clause.startswith('converted') and any(o[0] == 'conv' for o in ops):
        return '%s/get_converted_psd/%s' % (clause, conv_config(name, did, ops))
    attrs = sorted(set((o[1] if o[0] == 'set' else 'numpy-' + o[1] if o[0] == 'setnp' else 'reassign-' + o[1]) for o in ops if o[0] in ('set', 'setnp', 'reassign')))
    return '%s/%s/%s-%s' % (clause, '+'.join(attrs) or 'no-assignment', R.base_of(name), 'real' if did.startswith('r') else 'complex')


def jsonable_ops(ops):
    return [list(o) for o in ops]


def replay(rep):
    if rep.get('replay', {}).get('form') == 'routes':
        from props import _estimators as E_
        return E_.replay_routes(rep['replay'])
    r = rep['replay']
    ops = [tuple(o) for o in r['ops']]
    p, tr, bad = R.run_history(r['class'], r['data'], ops)
    clause = r.get('clause')
    return not [c for c, w, n in bad if clause is None or c == clause]


# ----------------------------------------------------------------------------- the check
def run(ctx):
    import spectrum
    rng = ctx.rng
    ctx.check_theorems('Properties/C07.v')
    # the estimate an object holds does not depend on the history that gave it its data and settings (every route of _estimators.via)
    from props import _estimators as E_
    E_.class_route_stream(ctx, E_.CLASSES, 'routes')
    rc, log = vlib.make_cone('Model/PsdMachineRun.vo')
    if rc != 0:
        ctx.broken.append({'theorem': 'build of Model/PsdMachineRun.v', 'where': 'Model/PsdMachineRun.v', 'log': log[-1500:]})
    src = os.path.dirname(os.path.abspath(spectrum.__file__))
    info = None
    # ---- translation (fail-closed)
    try:
        text, info = TR.translate_all(src)
    except TR.Fail as e:
        ctx.broken.append({'theorem': 'translator: psd.py / estimator classes outside the recognised shapes', 'where': src,
                           'log': 'translation aborted: %s' % e})
        ctx.obligations.append(('machine_translated', False, []))
    machine_ok = False
    if info is not None:
        ok, out = ctx.check_generated('C07Machine', TR.HEADER + text, ['machine_translated'])
        machine_ok = ok
        if ok:                                 # a definitions-only file: nothing to print assumptions of
            ctx.obligations[-1] = ('machine_translated', True, [])
        ctx.extra['generated_machine'] = {'methods': len(info['methods']), 'classes': {k: {'base': v['base'], 'reads': v['mask'],
                                          'plain_attributes': v['plain']} for k, v in info['classes'].items()}}
    # ---- proofs over the generated machine, in the background
    presult = {'broken': [], 'theorems': [], 'timings': {}}
    pth = None
    if machine_ok:
        pth = threading.Thread(target=run_proofs, args=(ctx, ctx.work, info, presult))
        pth.start()
        ctx.checker_cmds.append('coqc -R coq Spectrum -R <work> Gen <work>/C07{Tactics,Generic,Conv*,Sides*,Init*,Re*,_<class>,Check}.v '
                                '(generated from %s/src on this run)' % vlib.REPO)

    # ---- exhaustive histories: implementation side (fresh-object oracle + packed observations)
    L = ctx.q(3, 3)
    L4 = ctx.q(0, 4)
    jobs = []
    alph = {}
    for name in R.CLASS_NAMES:
        for did in ('r0', 'c0', 'r1', 'c1'):
            # r0/c0: 20 samples (even default grid), the full alphabet; r1/c1: 23 samples (ODD default grid), the core alphabet
            A = R.alphabet(name, did) if did in ('r0', 'c0') else R.core_alphabet(name, did)
            alph[(name, did)] = A
            jobs.append((name, did, A, [], 0))
            for a in A:
                jobs.append((name, did, A, [a], L - 1))
    core = {}
    if L4:
        for name in R.CLASS_NAMES:
            for did in ('r0', 'c0'):
                A = R.core_alphabet(name, did)
                core[(name, did)] = A
                for a in A:
                    jobs.append((name, did, A, [a], L4 - 1))
    with ProcessPoolExecutor(max_workers=14) as ex:
        results = list(ex.map(T.dfs_job, jobs, chunksize=1))
    found = {}                  # key -> (len, name, did, ops, what, clause)
    blocks = {}
    nodes = 0
    for job, r in zip(jobs, results):
        key = (r['name'], r['did'])
        is_core = job[2] is not alph[key]
        nodes += r['nodes']
        for d, exp in sorted(r['obs'].items()):
            if is_core and d < L4 - 1:
                continue                     # shorter histories over the core alphabet are covered by the full alphabet
            blocks.setdefault((key, 'core' if is_core else 'full'), []).append((r['prefix'], d, exp))
        ctx.count('%s/%s/exhaustive_nodes' % key, r['nodes'])
        for ops, c, w in r['bad']:
            ops = [tuple(o) for o in ops]
            k = violation_key(r['name'], r['did'], ops, c)
            if k not in found or len(ops) < found[k][0]:
                found[k] = (len(ops), r['name'], r['did'], ops, w, c)
    ctx.evaluations += nodes
    for job, r in zip(jobs[:2000:37], results[:2000:37]):
        ctx.case((r['name'], r['did'], str(r['prefix'])), nontrivial=True,
                 sample={'class': r['name'], 'data': r['did'], 'first_ops': jsonable_ops(r['prefix']), 'histories_below': r['nodes']})
    ctx.extra['exhaustive'] = {'max_length': L, 'max_length_core_alphabet': L4, 'histories': nodes,
                               'alphabet_sizes': {'%s/%s' % k: len(v) for k, v in alph.items()}}

    # ---- random longer histories
    nrand = ctx.q(360, 3000)
    rjobs = []
    for i in range(nrand):
        name = R.CLASS_NAMES[i % len(R.CLASS_NAMES)]
        did = ['r0', 'c0', 'r1', 'c1'][int(rng.integers(0, 4))]
        rjobs.append((name, did, random_history(rng, name, int(rng.integers(4, 11)))))
    # ---- directed A-B-A histories (an attribute returns to an earlier value while something else changed in between)
    nrev = 0
    for name in R.CLASS_NAMES:
        for did in ('r0', 'c0'):
            H = revisit_histories(name, did)
            if ctx.tier == 'quick':
                nclose = 4 * len(R.CLOSE_PAIRS) + 0
                tail = [h for h in H if any(o[0] == 'set' and o[1] == 'data' and o[2] in ('r0p', 'c0p', 'r0t', 'r0u', 'c0t', 'c0u') for o in h)]
                alias = [h for h in H if h not in tail and any(o[0] == 'set' and o[1:] in (('NFFT', None), ('NFFT', 'nextpow2'), ('sides', 'default')) for o in h)]
                tail = tail + [alias[int(i)] for i in rng.choice(len(alias), size=min(len(alias), 14), replace=False)]
                head = [h for h in H if h not in tail and h not in alias]
                H = [head[int(i)] for i in rng.choice(len(head), size=min(len(head), 40), replace=False)] + \
                    [tail[int(i)] for i in rng.choice(len(tail), size=min(len(tail), 20), replace=False)]
            for ops in H:
                rjobs.append((name, did, ops)); nrev += 1
    ctx.count('revisit_histories', nrev)
    with ProcessPoolExecutor(max_workers=14) as ex:
        rres = list(ex.map(random_job, rjobs, chunksize=8))
    # ---- the random histories again with numeric / boolean values given as numpy scalars
    tjobs = [(n, d, numpy_typed(rng, ops)) for n, d, ops in rjobs[:nrand]]
    tjobs = [j for j in tjobs if any(o[0] == 'setnp' for o in j[2])]
    with ProcessPoolExecutor(max_workers=14) as ex:
        tres = list(ex.map(typed_job, tjobs, chunksize=8))
    traces = {}
    for r in rres:
        if 'skip' in r:
            ctx.count('random/skipped_estimator_error'); continue
        ctx.count('random/%s' % R.base_of(r['name']))
        ctx.evaluations += 1
        traces.setdefault((r['name'], r['did']), []).append((r['ops'], r['trace']))
        for c, w, n in r['bad']:
            ops = r['ops'][:n]
            k = violation_key(r['name'], r['did'], ops, c)
            if k not in found or len(ops) < found[k][0]:
                found[k] = (len(ops), r['name'], r['did'], ops, w, c)
    for r in tres:
        if 'skip' in r:
            ctx.count('numpy_typed/skipped_estimator_error'); continue
        ctx.count('numpy_typed/%s' % R.base_of(r['name']))
        ctx.evaluations += 1
        for c, w, n in r['bad']:
            ops = r['ops'][:n]
            k = violation_key(r['name'], r['did'], ops, c)
            if k not in found or len(ops) < found[k][0]:
                found[k] = (len(ops), r['name'], r['did'], ops, w, c)
    # distinct non-trivial: every history of length >= 2 is a distinct (class, data, history) triple
    ntriv = sum(1 + len(v) for v in alph.values())
    ctx.distinct = set(range(max(0, nodes - ntriv) + sum(1 for r in rres if 'skip' not in r)))

    # ---- the tie: the same histories on the generated machine, inside Coq
    if machine_ok:
        files = []
        meta = {}
        for (key, kind), bl in blocks.items():
            A = alph[key] if kind == 'full' else core[key]
            tr = traces.pop(key, []) if kind == 'full' else []
            files.append(((key, kind), T.coq_file_config(key[0], key[1], A, bl, tr, info)))
            meta[(key, kind)] = (A, bl, tr)
        for key, tr in traces.items():          # datasets r1/c1 only occur in random histories
            files.append(((key, 'random'), T.coq_file_config(key[0], key[1], [], [], tr, info)))
            meta[(key, 'random')] = ([], [], tr)
        res = T.run_coq_files(ctx.work, files, vlib.run_coqc)
        ncases = 0; ndis = 0
        for tag, (rc, reps, logtxt) in res.items():
            A, bl, tr = meta[tag]
            if rc != 0 or len(reps) != len(bl) + len(tr):
                ctx.broken.append({'theorem': 'correspondence:C07 machine (case file does not compile)', 'where': str(tag), 'log': logtxt})
                continue
            for (pre, d, exp), (n, pairs) in zip(bl, reps[:len(bl)]):
                ncases += len(exp); ndis += n
                prods = None
                for i, z in pairs[:3]:
                    if prods is None:
                        prods = list(itertools.product(A, repeat=d))
                    ops = list(pre) + list(prods[i])
                    ctx.corr_disagreement('C07 machine vs %s' % tag[0][0], i,
                                          {'class': tag[0][0], 'data': tag[0][1], 'ops': jsonable_ops(ops),
                                           'differs': T.diff(exp[i], z) if z >= 0 else 'length mismatch'})
            for (ops, exp), (n, pairs) in zip(tr, reps[len(bl):]):
                ncases += len(exp); ndis += n
                for i, z in pairs[:1]:
                    ctx.corr_disagreement('C07 machine vs %s' % tag[0][0], i,
                                          {'class': tag[0][0], 'data': tag[0][1], 'ops': jsonable_ops(ops), 'after_step': i,
                                           'differs': T.diff(exp[i], z) if z >= 0 else 'length mismatch'})
        ctx.corr['generated machine vs implementation'] = {
            'cases': ncases, 'disagreements': ndis,
            'description': 'packed observation (outcome, returned length, modified, sides, NFFT, cached length, len(frequencies()), N, '
                           'datatype, sampling, range.sampling, range.N, df) after the last operation of every exhaustive history and '
                           'after every operation of every random history; machine evaluated by vm_compute'}
        ctx.checker_cmds.append('coqc <work>/c07_tie_*.v  (%d observations, vm_compute inside Coq)' % ncases)

    # ---- proofs: collect
    if pth is not None:
        pth.join()
        for b in presult['broken']:
            ctx.broken.append(b)
        for x, o, ax in presult['theorems']:
            ctx.obligations.append((x, o, ax))
        ctx.extra['generated_proof_timings_s'] = presult['timings']

    # ---- violations (shortest witness per key; staleness clauses first)
    def order(k):
        c = found[k][5]
        return (STALE_FIRST.index(c) if c in STALE_FIRST else 99, found[k][0], k)
    # keep the minimal witnesses: a key whose set of assigned attributes strictly contains that of another failing key of
    # the same clause and configuration adds nothing
    def parts(k):
        c, a, cfg = k.split('/')
        return c, frozenset(a.split('+')), cfg
    keys = list(found)
    minimal = [k for k in keys if k.split('/')[1] in ('get_converted_psd',) or not any(
        parts(j)[0] == parts(k)[0] and parts(j)[2] == parts(k)[2] and parts(j)[1] < parts(k)[1] for j in keys
        if j.split('/')[1] != 'get_converted_psd')]
    ctx.extra['failing_history_keys'] = {'all': len(keys), 'minimal': len(minimal)}
    for k in sorted(minimal, key=order):
        n, name, did, ops, what, clause = found[k]
        msg = '%s(%s data): after %s: %s' % (name, 'real' if did.startswith('r') else 'complex', signature(ops) or 'construction', what)
        print('C07 failing-history key=%s :: %s' % (k, msg))
        ctx.violation(k, msg, {'class': name, 'data': did, 'ops': jsonable_ops(ops), 'clause': clause})
