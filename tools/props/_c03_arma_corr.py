"""arma_estimate against Model/ArmaEst.v at TRANSFORMED inputs (scaled: C03, modulated by the period-4 character: C04).

The model is C15's; its correspondence there runs at plain low-bit inputs.  The C03 / C04 theorems speak about the model
at c*x and x_n*phi(n), so the same exact in-Coq comparison is repeated at such inputs: the transformed input is built
INSIDE Coq from the low-bit data (vscale / vmod), the implementation is called on the numerically transformed array
(exact too: dyadic scalars, Gaussian-integer phases).  Reuses C15's preamble (arma_case: outcome code, oracle residual
checked exactly, AR / MA / rho compared), generators and condition estimates by import."""
import numpy as np
import vlib
from vlib import cz, czl, tolq
from props import C15


def pre(extra=''):
    return C15.arma_pre('qcc') + extra


def gen(ctx, n, make_input, label):
    """make_input(rng, x, cplx) -> (xt, coq_term_of_xt, info); returns (cases, meta)"""
    from spectrum import arma_estimate
    rng = ctx.rng
    cases, meta = [], []
    guard = 0
    while len(cases) < n and guard < 4000:
        guard += 1
        cplx = bool(rng.integers(0, 2))
        err = rng.integers(0, 4) == 0
        if err:
            N = int(rng.integers(4, 13)); P = int(rng.integers(0, 8)); Q = int(rng.integers(0, 4)); lag = int(rng.integers(0, N + 2))
            if P > 4 and lag < 2:
                continue
            if C15.in_domain(N, P, Q, lag) and lag >= 2 * P:
                continue
        else:
            N = int(rng.integers(8, 13)); P = int(rng.integers(0, 3)); Q = 1
            lo = max(2 * P, Q, 1); hi = min(N - 2 * P + Q, N - 1, lo + 8)
            if hi < lo or not 2 * Q < N - P:
                continue
            lag = int(rng.integers(lo, hi + 1))
        x = C15.lowbit(rng, N, cplx)
        xt, coqx, info = make_input(rng, x, cplx)
        code, res = C15.call_code(arma_estimate, xt, P, Q, lag)
        if code < 0:
            ctx.broken.append({'theorem': 'correspondence:arma_estimate at %s input (unexpected exception)' % label, 'where': 'arma_estimate', 'log': repr(res)})
            break
        if code == 0:
            a, b, rho = res
            if err:
                ctx.count('corr/arma_%s/underdetermined_returned_skipped' % label); continue
            if not (np.all(np.isfinite(a)) and np.all(np.isfinite(b)) and np.isfinite(rho)) or len(a) < P:
                ctx.count('regenerated_degenerate'); continue
            R = C15.corr_ref(xt, lag, True); y = C15.arma_y_ref(R, P, Q, lag); Xc, X1 = C15.cov_system(y, P)
            kls = np.linalg.cond(Xc.conj().T @ Xc) if P else 1.0
            e = np.array([xt[k] + sum(a[j] * xt[k - j - 1] for j in range(P)) for k in range(P, N)])
            kap = kls * C15.kappa_lev(e, 2 * Q) * C15.kappa_lev(np.concatenate(([1], C15.yw_ref(e, 2 * Q)[0])), Q)
            if not np.isfinite(kap) or kap > 1e4:
                ctx.count('regenerated_illconditioned'); continue
        else:
            a, b, rho, kap = [], [], 0, 1.0
        cases.append('arma_case %s %s %d%%nat %d%%nat %d%%nat %d%%nat %s %s %s' % (tolq(1e-9 * kap), coqx, P, Q, lag, code, czl(a), czl(b), cz(rho)))
        m = {'function': 'arma_estimate at %s input' % label, 'x': vlib.hexv(np.asarray(x, dtype=complex)), 'P': P, 'Q': Q, 'lag': lag, 'impl_code': code}
        m.update(info); meta.append(m)
        ctx.count('corr/arma_%s/%s/%s' % (label, 'complex' if cplx else 'real', 'returned' if code == 0 else 'error%d' % code))
        ctx.case(('arma_' + label, x.tobytes(), P, Q, lag, repr(sorted(info.items()))), nontrivial=(code == 0 and P + Q >= 2),
                 sample={'function': 'arma_estimate at %s input' % label, 'P': P, 'Q': Q, 'lag': lag, **info})
    return cases, meta
