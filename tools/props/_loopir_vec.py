"""T7: case generators of the loop-IR tie for the FFT-based kernels arma2psd, minvar (whole function), CORRELOGRAMPSD, speriodogram (1-D).

Each generator returns a `_loopir.Cases` with
  exact : `q_<kernel> prog ...`      run program = hand model, ZERO tolerance, at QcC with the exact twiddles tw1 / tw2 / tw4 (NFFT in {0, 1, 2, 4})
  impl  : `ir_close / ir_raises`     the QcC run vs the implementation's float output (sanity of translator + interpreter), NFFT in {1, 2, 4}
  flt   : `f_<kernel> tolm tol ...`  binary64 (Instances/FloatC.v, twiddle table from the harness), general NFFT: the IR run vs the hand model
                                     (tolm = 0: bit for bit) AND vs the implementation's output (the tolerances of the existing correspondences)
Window samples, numpy.pi, pylab_rms_flat and the results of xcorr are ORACLE inputs (hidden parameters): in the exact cases they are arbitrary
low-bit values (the claim is for all oracle values), in the cases against the implementation they are the implementation's own values, exactly.
"""
import cmath
import math
import numpy as np
import vlib
from vlib import cz, czl, tolq, fl, fc, fcl

PRE_FLT = """From Coq Require Import String ZArith List PrimFloat.
Require Import Spectrum.Theory.Ops Spectrum.Theory.Vec Spectrum.Model.LoopIR Spectrum.Model.LoopIRTie Spectrum.Model.LoopIRVec
               Spectrum.Model.Arma2psd Spectrum.Model.Corr Spectrum.Model.Periodogram Spectrum.Instances.FloatC Spectrum.Instances.QcC.
Import ListNotations.
Local Open Scope string_scope.
"""
PRE_FLT_TAIL = """Local Close Scope string_scope.
Local Open Scope float_scope.
"""
FLOOR = '0x1p-1000'


def b2c(b):
    return 'true' if b else 'false'


def opt(x):
    return 'None' if x is None else '(Some %s)' % x


def ostr(s):
    return 'None' if s is None else '(Some "%s"%%string)' % s


def qarr(v, real):
    return 'None' if v is None else '(Some (%s, %s))' % (b2c(real), czl(v))


def farr(v, real):
    return 'None' if v is None else '(Some (%s, %s))' % (b2c(real), fcl(v))


def twtab(n):
    return [cmath.exp(-2j * math.pi * j / n) for j in range(n)]


def lowbit(rng, n, cplx, den=8, span=12):
    v = rng.integers(-span, span + 1, size=n).astype(float) / den
    if cplx:
        v = v + 1j * rng.integers(-span, span + 1, size=n) / den
    return v


def oexc(ex):
    return 'None' if ex is None else '(Some %s)' % ex


# ================================================================================================ arma2psd
def poly_at(c, z):
    acc = 0j
    for cj in reversed(list(c)):
        acc = (acc + cj) * z
    return 1 + acc


def arma_kappa(A, B, NFFT):
    """largest per-bin condition estimate of (rho/T)|B|^2/|A|^2 on the grid (as tools/props/C08.py)"""
    sa = 1 + (np.sum(np.abs(A)) if A is not None else 0)
    kap = 1.0
    for k in range(NFFT):
        z = cmath.exp(-2j * math.pi * k / NFFT)
        az = poly_at(A, z) if A is not None else 1.0
        kap = max(kap, max(1.0, sa / abs(az) if az != 0 else np.inf) ** 2)
    return kap


def gen_arma2psd(rng, n, nimpl, nflt):
    from props import _loopir as L
    from spectrum.arma import arma2psd
    c = L.Cases('arma2psd')
    kinds = ['ARMA', 'AR', 'MA', 'ARMA', 'none', 'toolong', 'ARMA', 'AR', 'badsides', 'MA', 'nfft0', 'ARMA', 'AR', 'toolong_eq']
    i = 0
    while len(c.exact) < n:
        kind = kinds[i % len(kinds)]; i += 1
        NFFT = int(rng.choice([1, 2, 2, 4, 4, 4, 4]))
        cplx = bool(rng.integers(0, 2))
        la = int(rng.integers(0, NFFT)) if rng.integers(0, 3) == 0 else NFFT - 1       # mostly the longest admissible vectors
        lb = int(rng.integers(0, NFFT)) if rng.integers(0, 3) == 0 else NFFT - 1
        A = lowbit(rng, la, cplx) if kind not in ('MA', 'none') else None
        B = lowbit(rng, lb, cplx) if kind not in ('AR', 'none') else None
        if kind in ('toolong', 'toolong_eq'):
            ext = NFFT + (0 if kind == 'toolong_eq' else int(rng.integers(0, 2)))
            if rng.integers(0, 2):
                A = lowbit(rng, ext, cplx)
            else:
                B = lowbit(rng, ext, cplx)
        if kind == 'nfft0':
            NFFT = 0; A = lowbit(rng, int(rng.integers(0, 2)), cplx); B = None if rng.integers(0, 2) else lowbit(rng, 0, cplx)
        rho = None if rng.integers(0, 6) == 0 else float(rng.integers(1, 40)) / 8
        T = None if rng.integers(0, 6) == 0 else float(rng.integers(1, 40)) / 4
        sides = [None, 'default', 'centerdc', 'centerdc'][int(rng.integers(0, 4))]
        if kind == 'badsides':
            sides = ['twosided', 'onesided', 'foo'][int(rng.integers(0, 3))]
        norm = [None, False, True, True][int(rng.integers(0, 4))]
        kw = {}
        for k, v in (('rho', rho), ('T', T), ('sides', sides), ('norm', norm)):
            if v is not None:
                kw[k] = v
        with np.errstate(all='ignore'):
            res = L.call_impl(arma2psd, A, B, NFFT=NFFT, **kw)
        tags = [False] if cplx else [True, False]
        for tag in tags:
            c.add('q_arma2psd prog_arma2psd %s %s %s %s %d%%nat %s %s' % (qarr(A, tag), qarr(B, tag), opt(None if rho is None else cz(rho)),
                                                                        opt(None if T is None else cz(T)), NFFT, ostr(sides), opt(None if norm is None else b2c(norm))),
                  impl=res, A=None if A is None else vlib.hexv(A), B=None if B is None else vlib.hexv(B), rho=rho, T=T, NFFT=NFFT, sides=sides, norm=norm,
                  declared_real=tag, kind=kind)
        if len(c.impl) < nimpl and NFFT >= 1:
            out, ex = res
            args = '[%s; %s; %s; %s; %s; %s; %s; Tw]' % (
                'Omit' if A is None else L.A_(not cplx, A), 'Omit' if B is None else L.A_(not cplx, B), 'Omit' if rho is None else L.S_(rho),
                'Omit' if T is None else L.S_(T), L.I_(NFFT), 'Omit' if sides is None else L.Str_(sides), 'Omit' if norm is None else L.B_(norm))
            if ex is not None:
                if ex in L.EXC and not any(m.get('impl_raised') == ex for m in c.impl_meta):
                    c.add_impl('ir_raises (qrun prog_arma2psd %s) %s' % (args, ex), NFFT=NFFT, kind=kind, impl_raised=ex)
            elif np.all(np.isfinite(out)):
                kap = arma_kappa(A, B, NFFT)
                if kap < 1e4:
                    c.add_impl('ir_close %s (qrun prog_arma2psd %s) %s' % (tolq(1e-9 * kap), args, L.outs(out)), NFFT=NFFT, kind=kind, sides=sides, norm=norm)
    # binary64, general NFFT: bit-for-bit against the hand model, tolerance against the implementation
    i = 0; tries = 0
    while len(c.flt) < nflt and tries < 20 * nflt + 20:
        tries += 1
        NFFT = int(rng.choice([3, 5, 6, 7, 8, 9, 12, 16, 17, 24, 31, 32]))
        cplx = bool(rng.integers(0, 2)); kind = str(rng.choice(['AR', 'MA', 'ARMA', 'ARMA']))
        mx = min(6, NFFT - 1)
        A = lowbit(rng, int(rng.integers(0, mx + 1)), cplx) if kind in ('AR', 'ARMA') else None
        B = lowbit(rng, int(rng.integers(0, mx + 1)), cplx) if kind in ('MA', 'ARMA') else None
        if rng.integers(0, 12) == 0:
            if A is not None:
                A = lowbit(rng, NFFT + int(rng.integers(0, 2)), cplx)
            else:
                B = lowbit(rng, NFFT + int(rng.integers(0, 2)), cplx)
        rho = float(rng.integers(1, 400)) / 16
        T = float(rng.choice([1.0, 2.0, 0.5, 1024.0, 44100.0, 0.0625])) if rng.integers(0, 3) == 0 else float(10.0 ** rng.uniform(-2, 5))
        sides = str(rng.choice(['default', 'default', 'centerdc'])); norm = bool(rng.integers(0, 4) == 0)
        with np.errstate(all='ignore'):
            out, ex = L.call_impl(arma2psd, A, B, rho, T, NFFT, sides=sides, norm=norm)
        kap = 1.0
        if ex is None:
            if not np.all(np.isfinite(out)):
                continue
            kap = arma_kappa(A, B, NFFT)
            if kap > 1e4:
                continue
        elif ex not in L.EXC:
            continue
        c.add_flt('f_arma2psd 0 %s %s %s prog_arma2psd %s %s (Some %s) (Some %s) %d%%nat %s (Some %s) %s %s' % (
            fl(1e-9 * kap), FLOOR, fcl(twtab(NFFT)), farr(A, not cplx), farr(B, not cplx), fc(rho), fc(T), NFFT, ostr(sides), b2c(norm), oexc(ex),
            fcl([] if ex is not None else out)),
            A=None if A is None else vlib.hexv(A), B=None if B is None else vlib.hexv(B), rho=rho, T=T, NFFT=NFFT, sides=sides, norm=norm, impl_raised=ex)
    return c


# ================================================================================================ minvar (whole function)
def mv_lowbit(rng, n, cplx, bits=2):
    s = 1 << bits
    x = rng.integers(-s, s + 1, size=n).astype(float)
    if cplx:
        x = x + 1j * rng.integers(-s, s + 1, size=n)
    if np.count_nonzero(x) < 2:
        x[0] = 1; x[-1] = -2
    return x


def mv_data(rng, N, cplx, style):
    def noise(n):
        return rng.standard_normal(n) + (1j * rng.standard_normal(n) if cplx else 0)
    t = np.arange(N)
    if style == 'noise':
        return noise(N)
    if style == 'tone':
        f1 = rng.uniform(0.05, 0.45); f2 = rng.uniform(0.05, 0.45)
        s = (np.exp(2j * np.pi * f1 * t) + 0.5 * np.exp(2j * np.pi * f2 * t + 1j)) if cplx else (np.cos(2 * np.pi * f1 * t) + 0.5 * np.sin(2 * np.pi * f2 * t))
        return s + 0.3 * noise(N)
    return mv_lowbit(rng, N, cplx, bits=5)


def gen_minvar(rng, n, nimpl, nflt):
    from props import _loopir as L
    from spectrum import minvar, arburg
    c = L.Cases('minvar')
    kinds = ['plain', 'plain', 'aliased', 'plain', 'nfft_lt_m', 'order1', 'plain', 'order0', 'degenerate', 'plain', 'order_neg', 'toolong', 'aliased', 'nfft0']
    i = 0
    while len(c.exact) < n:
        kind = kinds[i % len(kinds)]; i += 1
        cplx = bool(rng.integers(0, 2)); N = int(rng.integers(4, 8))
        m = int(rng.choice([2, 2, 2, 3, 3, 4])); nfft = int(rng.choice([2, 4, 4, 4]))
        x = mv_lowbit(rng, N, cplx)
        if kind == 'plain':
            m = int(rng.choice([2, 2, 3])); nfft = 4
            if m == 3 and rng.integers(0, 2):
                m = 2
        elif kind == 'aliased':
            m = int(rng.choice([3, 4])); nfft = 4 if m >= 3 else 2       # NFFT < 2m-1
            if rng.integers(0, 3) == 0:
                m = 2; nfft = 2
        elif kind == 'nfft_lt_m':
            m = int(rng.choice([2, 3, 4])); nfft = int(rng.choice([k for k in (1, 2) if k < m]))
        elif kind == 'order1':
            m = 1
        elif kind == 'order0':
            m = 0
        elif kind == 'order_neg':
            m = -int(rng.integers(1, 3))
        elif kind == 'toolong':
            N = 4; x = x[:4]; m = N + 2
        elif kind == 'nfft0':
            nfft = 0
        elif kind == 'degenerate':
            x = np.array([1.0, -1.0] * 4)[:N] * (1j if cplx else 1); m = 3      # perfectly predictable: rho reaches 0, arburg raises
        s = [None, 1.0, 0.5, 2.0, 1024.0, 0.375][int(rng.integers(0, 6))]
        args = (x if cplx else np.real(x), m) + ((s,) if s is not None else (1.0,)) + (nfft,)
        with np.errstate(all='ignore'):
            res = L.call_impl(minvar, *args)
        tags = [False] if cplx else [True, False]
        for tag in tags:
            c.add('q_minvar prog_minvar %s %s (%d) %s %d%%nat' % (b2c(tag), czl(x), m, opt(None if s is None else cz(s)), nfft),
                  impl=res, x=vlib.hexv(x), order=m, sampling=s, NFFT=nfft, declared_real=tag, kind=kind)
        if len(c.impl) < nimpl and kind in ('plain', 'aliased', 'nfft_lt_m', 'order1', 'order0', 'toolong') and nfft >= 1:
            out, ex = res
            iargs = '[%s; %s; %s; %s; Tw]' % (L.A_(not cplx, x), L.I_(m), 'Omit' if s is None else L.S_(s), L.I_(nfft))
            if ex is not None:
                if ex in L.EXC and not any(mm.get('kind') == kind for mm in c.impl_meta):
                    c.add_impl('ir_raises (qrun prog_minvar %s) %s' % (iargs, ex), x=vlib.hexv(x), order=m, NFFT=nfft, impl_raised=ex, kind=kind)
            else:
                psd, A, k = out
                psd = np.asarray(psd, dtype=float)
                try:
                    a2, rho, k2 = arburg(x if cplx else np.real(x), m - 1)
                except Exception:      # (a changed implementation: no condition estimate, no case)
                    continue
                r0 = np.sum(np.abs(x) ** 2) / N
                if np.all(np.isfinite(psd)) and rho > 0 and r0 / rho <= 1e4 and np.all(psd != 0):
                    den = (1.0 if s is None else s) / psd
                    kap = max(1.0, float(np.max(np.abs(den)) / np.min(np.abs(den))) * r0 / rho)
                    if kap <= 1e5:
                        c.add_impl('ir_close %s (qrun prog_minvar %s) %s' % (tolq(1e-9 * kap), iargs, L.outs(psd, A, k)), x=vlib.hexv(x), order=m, NFFT=nfft, kind=kind)
    tries = 0
    while len(c.flt) < nflt and tries < 30 * nflt + 30:
        tries += 1
        cplx = bool(rng.integers(0, 2))
        m = int(rng.integers(2, 7)); N = int(rng.integers(max(8, 2 * m), 33))
        nfft = int(rng.integers(2 * m - 1, 49))
        if rng.integers(0, 5) == 0 and m > 2:
            nfft = int(rng.integers(m, 2 * m - 1))          # aliased grid
        style = str(rng.choice(['noise', 'tone', 'int']))
        x = mv_data(rng, N, cplx, style)
        s = float(rng.choice([1.0, 0.5, 2.0, 1000.0, 0.001, 44100.0]))
        with np.errstate(all='ignore'):
            out, ex = L.call_impl(minvar, x, m, s, nfft)
            if ex is not None:
                continue
            try:
                a2, rho, k2 = arburg(x, m - 1)
            except Exception:
                continue
        psd, A, k = out
        psd = np.asarray(psd, dtype=float)
        r0 = np.sum(np.abs(x) ** 2) / N
        if not np.all(np.isfinite(psd)) or np.any(psd == 0) or rho <= 0:
            continue
        den = s / psd
        dyn = float(np.max(np.abs(den)) / np.min(np.abs(den))); kb = max(1.0, r0 / rho)
        if dyn * kb > 1e6:
            continue
        c.add_flt('f_minvar %s %s %s %s %s prog_minvar %s %s (%d)%%Z (Some %s) %d%%nat None %s %s %s' % (
            fl(1e-9 * dyn * kb), fl(1e-9 * dyn * kb), FLOOR, fl(1e-9 * kb), fcl(twtab(nfft)), b2c(not cplx), fcl(x), m, fc(s), nfft, fcl(psd), fcl(A), fcl(k)),
            x=vlib.hexv(x), order=m, sampling=s, NFFT=nfft, kind=style)
    return c


# ================================================================================================ CORRELOGRAMPSD
NORMS = [('biased', 'Biased'), ('unbiased', 'Unbiased'), ('coeff', 'Coeff'), (None, 'NoNorm')]


def nm_txt(nm):
    return {'omit': 'None', None: '(Some None)'}.get(nm, '(Some (Some "%s"%%string))' % nm)


def nfft_txt(v):
    """NFFT argument: 'omit' (the default 4096), None (explicit: NFFT = N), an int"""
    return 'None' if v == 'omit' else ('(Some None)' if v is None else '(Some (Some %d%%nat))' % v)


def window_data(N, name):
    from spectrum.window import Window
    return np.asarray(Window(N, name).data, dtype=float)


def gen_CORRELOGRAMPSD(rng, n, nimpl, nflt):
    from props import _loopir as L
    from spectrum import CORRELOGRAMPSD
    from spectrum.correlation import pylab_rms_flat
    from spectrum.window import window_names
    W = sorted(window_names.keys())
    c = L.Cases('CORRELOGRAMPSD')
    kinds = ['auto', 'cross', 'auto', 'lagN', 'auto', 'nfft_short', 'cross', 'xcorr', 'badnorm', 'auto', 'nfft0', 'badmeth', 'nfft_none', 'xcorr', 'lag1_nfft1', 'cross_len']
    i = 0
    while len(c.exact) < n:
        kind = kinds[i % len(kinds)]; i += 1
        N = int(rng.integers(1, 6)); cx = bool(rng.integers(0, 3)); cy = bool(rng.integers(0, 2))
        if kind in ('auto', 'cross', 'xcorr'):
            N = int(rng.integers(3, 6))
        x = lowbit(rng, N, cx, den=4, span=8)
        y = lowbit(rng, N, cy, den=4, span=8) if kind in ('cross', 'cross_len') or (kind == 'xcorr' and rng.integers(0, 2)) else None
        if kind == 'cross_len' and y is not None:
            y = lowbit(rng, int(rng.integers(1, 6)), cy, den=4, span=8)          # CORRELATION zero-pads the shorter record
        lag = int(rng.integers(0, N))
        nfft = [1, 2, 4, 4, 4][int(rng.integers(0, 5))]
        if kind in ('auto', 'cross', 'xcorr'):
            lag = int(rng.integers(1, min(N, 4))); nfft = 4 if rng.integers(0, 4) else 2        # the layouts that fit (and the overlapping ones for lag >= 2)
        nm = ['unbiased', 'biased', 'coeff', None, 'omit'][int(rng.integers(0, 5))]
        meth = 'CORRELATION'
        if kind == 'lagN':
            lag = N + int(rng.integers(0, 2))
        elif kind == 'nfft_short':
            lag = max(lag, min(2, N - 1)); nfft = int(rng.choice([k for k in (1, 2, 4) if k < lag + 1] or [1]))
        elif kind == 'xcorr':
            meth = ['xcorr', 'omit'][int(rng.integers(0, 2))]
        elif kind == 'badnorm':
            nm = 'foo'
        elif kind == 'nfft0':
            nfft = 0
        elif kind == 'badmeth':
            meth = 'fft'
        elif kind == 'nfft_none':
            N = int(rng.choice([1, 2, 4])); x = lowbit(rng, N, cx, den=4, span=8); y = None; lag = int(rng.integers(0, N)); nfft = None
        elif kind == 'lag1_nfft1':
            N = max(N, 2); x = lowbit(rng, N, cx, den=4, span=8); y = None; lag = 1; nfft = 1
        wfull = lowbit(rng, 2 * lag + 1, False, den=4, span=6)               # ANY window samples (oracle input)
        o1 = complex(int(rng.integers(1, 9)) / 4.0); o2 = complex(int(rng.integers(1, 9)) / 2.0)
        res = None
        if meth in ('CORRELATION', 'fft') and lag < N + 2:
            kw = {} if nm == 'omit' else {'norm': nm}
            if nfft != 'omit':
                kw['NFFT'] = nfft
            with np.errstate(all='ignore'):
                try:
                    res = L.call_impl(CORRELOGRAMPSD, x if cx else np.real(x), None if y is None else (y if cy else np.real(y)), lag=lag, window='hamming',
                                      correlation_method=meth, **kw)
                except Exception:      # pragma: no cover
                    res = None
        ytxt = qarr(y, not cy)
        c.add('q_correlogram prog_CORRELOGRAMPSD %s %s %s %d%%nat %s %s %s %s %s %s' % (
            b2c(not cx), czl(x), ytxt, lag, czl(wfull), nfft_txt(nfft), nm_txt(nm), 'None' if meth == 'omit' else '(Some "%s"%%string)' % meth, cz(o1), cz(o2)),
            impl=res, x=vlib.hexv(x), y=None if y is None else vlib.hexv(y), lag=lag, NFFT=nfft, norm=nm, method=meth, kind=kind)
        if len(c.impl) < nimpl and meth == 'CORRELATION' and kind not in ('badnorm',) and (nfft is None or nfft >= 1):
            # the implementation's own window and rms values, exactly
            xx = x if cx else np.real(x); yy = None if y is None else (y if cy else np.real(y))
            name = W[int(rng.integers(0, len(W)))]
            kw = {} if nm == 'omit' else {'norm': nm}
            with np.errstate(all='ignore'):
                out, ex = L.call_impl(CORRELOGRAMPSD, xx, yy, lag=lag, window=name, NFFT=nfft, correlation_method='CORRELATION', **kw)
            try:
                wd = window_data(2 * lag + 1, name) if lag < N else np.ones(2 * lag + 1)
            except Exception:
                continue
            yz = xx if yy is None else yy; Nn = max(len(xx), len(yz))
            r1 = pylab_rms_flat(np.concatenate((xx, np.zeros(Nn - len(xx))))); r2 = pylab_rms_flat(np.concatenate((yz, np.zeros(Nn - len(yz)))))
            if not (np.all(np.isfinite(wd)) and np.isfinite(r1) and np.isfinite(r2)):
                continue
            iargs = '[%s; %s; %s; Str "%s"; %s; %s; Omit; Str "CORRELATION"; A true %s; NoneV; NoneV; NoneV; NoneV; %s; %s; %s; %s; Tw]' % (
                L.A_(not cx, x), 'Omit' if y is None else L.A_(not cy, y), L.I_(lag), name, 'Omit' if nm == 'omit' else ('NoneV' if nm is None else L.Str_(nm)),
                'NoneV' if nfft is None else L.I_(nfft), czl(wd), L.S_(r1), L.S_(r2), L.S_(r2), L.S_(r1))
            if ex is not None:
                if ex in L.EXC and not any(mm.get('kind') == kind for mm in c.impl_meta):
                    c.add_impl('ir_raises (qrun prog_CORRELOGRAMPSD %s) %s' % (iargs, ex), lag=lag, NFFT=nfft, norm=nm, impl_raised=ex, kind=kind)
            elif np.all(np.isfinite(out)):
                S = float(np.sum(np.abs(x)) * np.sum(np.abs(x if y is None else y))) * 2 * max(1.0, float(np.max(np.abs(wd))))
                c.add_impl('ir_close %s (qrun prog_CORRELOGRAMPSD %s) %s' % (tolq(1e-9 * max(1.0, S)), iargs, L.outs(out)), lag=lag, NFFT=nfft, norm=nm, window=name, kind=kind)
    tries = 0
    while len(c.flt) < nflt and tries < 30 * nflt + 30:
        tries += 1
        N = int(rng.integers(1, 25)); cx = bool(rng.integers(0, 2))
        x = rng.standard_normal(N) + (1j * rng.standard_normal(N) if cx else 0)
        cross = int(rng.integers(0, 3)) == 0; cy = bool(rng.integers(0, 2))
        y = (rng.standard_normal(N) + (1j * rng.standard_normal(N) if cy else 0)) if cross else None
        lag = int(rng.integers(0, N)) if rng.integers(0, 12) else N
        lay = int(rng.integers(0, 6))
        if lay == 0:
            nfft = None
        elif lay == 1:
            nfft = int(rng.integers(1, lag + 2))
        elif lay == 2:
            nfft = int(rng.integers(lag + 1, 2 * lag + 2))
        else:
            nfft = int(rng.integers(min(2 * lag + 1, 48), 49))
        nn = N if nfft is None else nfft
        norm, _ = NORMS[int(rng.integers(0, 4))]
        name = W[int(rng.integers(0, len(W)))]
        with np.errstate(all='ignore'):
            out, ex = L.call_impl(CORRELOGRAMPSD, x, y, lag=lag, window=name, norm=norm, NFFT=nfft, correlation_method='CORRELATION')
        if ex is not None and ex not in L.EXC:
            continue
        if ex is None and not np.all(np.isfinite(out)):
            continue
        try:
            wd = window_data(2 * lag + 1, name) if lag < N else np.ones(2 * lag + 1)
        except Exception:
            continue
        r1 = float(pylab_rms_flat(x)); r2 = float(pylab_rms_flat(x if y is None else y))
        if not (np.all(np.isfinite(wd)) and np.isfinite(r1) and np.isfinite(r2)) or r1 == 0 or r2 == 0:
            continue
        yy = x if y is None else y
        S = float(np.sum(np.abs(x)) * np.sum(np.abs(yy))) * max(1.0, float(np.max(np.abs(wd)))) * 2
        if norm == 'coeff':
            S = S / (r1 * r2) / N + 2
        elif norm == 'biased':
            S = S / N
        elif norm == 'unbiased':
            S = S / max(1, N - lag)
        c.add_flt('f_correlogram 0x1.12e0be826d695p-30 0x1.12e0be826d695p-30 %s %s prog_CORRELOGRAMPSD %s %s %s %d%%nat %s %s %s (Some "CORRELATION"%%string) %s %s %s %s' % (
            fl(1e-6 * S + 1e-300), fcl(twtab(nn) if nn >= 1 else []), b2c(not cx), fcl(x), farr(y, not cy), lag, fcl(wd), nfft_txt(nfft), nm_txt(norm), fc(r1), fc(r2),
            oexc(ex), fcl([] if ex is not None else out)),
            x=vlib.hexv(x), y=None if y is None else vlib.hexv(y), lag=lag, NFFT=nfft, norm=norm, window=name, impl_raised=ex)
    return c


# ================================================================================================ speriodogram (1-D)
PYV = {'True': ('PyTrue', True), 'False': ('PyFalse', False), 'None': ('PyNone', None), 'mean': ('PyStr', 'mean')}
PYVAL = {'True': 'B true', 'False': 'B false', 'None': 'NoneV', 'mean': 'Str "mean"'}


def gen_speriodogram(rng, n, nimpl, nflt):
    from props import _loopir as L
    from spectrum import speriodogram
    from spectrum.window import window_names
    W = sorted(window_names.keys())
    c = L.Cases('speriodogram')
    i = 0
    while len(c.exact) < n:
        i += 1
        nn = [1, 2, 4, 4][int(rng.integers(0, 4))]
        how = i % 5
        if how == 0:
            N = nn; nfft = None                           # NFFT omitted: len(x)
        elif how == 1:
            N = int(rng.integers(nn + 1, nn + 3)); nfft = nn    # numpy crops
        elif how == 4 and i % 10 == 4:
            N = int(rng.integers(1, 4)); nfft = 0          # numpy.fft: ValueError
        else:
            N = int(rng.integers(1, nn + 1)); nfft = nn
        cplx = bool(rng.integers(0, 2))
        x = lowbit(rng, N, cplx, den=4, span=8)
        w = lowbit(rng, N, False, den=4, span=6)          # ANY window samples (oracle input)
        pi = float(rng.choice([3.0, 3.125, 3.140625, 3.25]))   # ANY value in the numpy.pi slot
        dt = ['True', 'False', 'None', 'mean', 'omit'][int(rng.integers(0, 5))]
        sbf = ['True', 'False', 'None', 'omit'][int(rng.integers(0, 4))]
        fs = [None, 1.0, 2.0, 0.5, 1024.0][int(rng.integers(0, 5))]
        for tag in ([False] if cplx else [True, False]):
            c.add('q_speriodogram %s prog_speriodogram %s %s %s %s %s %s %s' % (
                cz(pi), b2c(tag), czl(x), czl(w), opt(None if nfft is None else '%d%%nat' % nfft), opt(None if dt == 'omit' else PYV[dt][0]),
                opt(None if sbf == 'omit' else PYV[sbf][0]), opt(None if fs is None else cz(fs))),
                x=vlib.hexv(x), NFFT=nfft, detrend=dt, scale_by_freq=sbf, sampling=fs, declared_real=tag)
        if len(c.impl) < nimpl:
            name = W[int(rng.integers(0, len(W)))]
            kw = {}
            if dt != 'omit':
                kw['detrend'] = PYV[dt][1]
            if sbf != 'omit':
                kw['scale_by_freq'] = PYV[sbf][1]
            if fs is not None:
                kw['sampling'] = fs
            xx = x if cplx else np.real(x)
            with np.errstate(all='ignore'):
                out, ex = L.call_impl(speriodogram, xx, NFFT=nfft, window=name, **kw)
            try:
                wd = window_data(N, name)
            except Exception:
                continue
            if not np.all(np.isfinite(wd)):
                continue
            iargs = '[%s; %s; %s; %s; %s; Str "%s"; Omit; A true %s; %s; Tw]' % (
                L.A_(not cplx, x), 'Omit' if nfft is None else L.I_(nfft), 'Omit' if dt == 'omit' else PYVAL[dt], 'Omit' if fs is None else L.S_(fs),
                'Omit' if sbf == 'omit' else PYVAL[sbf], name, czl(wd), L.S_(np.pi))
            if ex is not None:
                if ex in L.EXC and not any(mm.get('impl_raised') == ex for mm in c.impl_meta):
                    c.add_impl('ir_raises (qrun prog_speriodogram %s) %s' % (iargs, ex), NFFT=nfft, impl_raised=ex)
            elif np.all(np.isfinite(out)):
                m = complex(np.mean(xx)) if dt in ('True', 'omit') else 0.0
                S = float(np.sum(np.abs(np.asarray(xx) * wd - m))) ** 2 / N
                if sbf in ('True', 'omit'):
                    S *= 2 * np.pi / ((1.0 if fs is None else fs) / float(N if nfft is None else nfft))
                c.add_impl('ir_close %s (qrun prog_speriodogram %s) %s' % (tolq(1e-9 * max(1.0, S)), iargs, L.outs(out)), NFFT=nfft, window=name, detrend=dt, scale_by_freq=sbf)
    tries = 0
    while len(c.flt) < nflt and tries < 30 * nflt + 30:
        tries += 1
        N = int(rng.integers(1, 34)); cplx = bool(rng.integers(0, 2))
        x = rng.standard_normal(N) + (1j * rng.standard_normal(N) if cplx else 0)
        if rng.integers(0, 4) == 0:
            x = rng.integers(-9, 10, size=N).astype(float) + (1j * rng.integers(-9, 10, size=N) if cplx else 0)
        dt = ['True', 'False', 'None', 'mean'][int(rng.integers(0, 4))]
        sbf = ['True', 'False', 'None'][int(rng.integers(0, 3))]
        how = int(rng.integers(0, 4))
        nfft = None if how == 0 else (int(rng.integers(1, N + 1)) if how == 1 else int(rng.integers(N, 49)))
        fs = float(rng.choice([1.0, 2.0, 0.5, 1024.0, 3.0]))
        name = W[int(rng.integers(0, len(W)))]
        with np.errstate(all='ignore'):
            out, ex = L.call_impl(speriodogram, x, NFFT=nfft, detrend=PYV[dt][1], scale_by_freq=PYV[sbf][1], sampling=fs, window=name)
        if ex is not None:
            continue
        try:
            wd = window_data(N, name)
        except Exception:
            continue
        if not (np.all(np.isfinite(wd)) and np.all(np.isfinite(out))):
            continue
        nn = N if nfft is None else nfft
        m = complex(np.mean(x)) if dt == 'True' else 0.0
        S = float(np.sum(np.abs(np.asarray(x) * wd - m))) ** 2 / N
        if sbf == 'True':
            S *= 2 * np.pi / (fs / float(nn))
        c.add_flt('f_speriodogram 0 0x1.12e0be826d695p-30 %s %s %s prog_speriodogram %s %s %s %s (Some %s) (Some %s) (Some %s) None %s' % (
            fl(1e-6 * S + 1e-300), fcl(twtab(nn)), fc(np.pi), b2c(not cplx), fcl(x), fcl(wd), opt(None if nfft is None else '%d%%nat' % nfft),
            PYV[dt][0], PYV[sbf][0], fc(fs), fcl(out)),
            x=vlib.hexv(x), NFFT=nfft, detrend=dt, scale_by_freq=sbf, sampling=fs, window=name)
    return c
