#!/bin/bash
# debugging aid: coqshow.sh <file.v> <line>  -- prints the goals just before <line>
f=$1; n=$2; tmp=/tmp/w/show_$$.v; mkdir -p /tmp/w
head -n $((n-1)) "$f" > $tmp; echo "Show. " >> $tmp
cd /verif/coq && coqc -R . Spectrum $tmp 2>&1 | grep -v "^Error\|There are pending\|conda" | head -${3:-60}; rm -f $tmp /tmp/w/show_$$.*
