"""Shared machinery of the checks: context, Coq runners, literal writers, evidence, verdict."""
import json, math, os, re, subprocess, sys, time, hashlib, glob, shutil
from concurrent.futures import ThreadPoolExecutor

HOME = os.environ.get('VERIF_HOME', '/verif')
SNAP = os.environ.get('VERIF_SNAPSHOT', '')
REPO = os.environ.get('VERIF_REPO', '/repo')
COQ = os.path.join(HOME, 'coq')
COQ_TIMEOUT = 900


# ----------------------------------------------------------------------------- literals
def dyadic(x):
    """exact (num, exp) with x == num * 2**exp"""
    x = float(x)
    if x == 0:
        return (0, 0)
    if not math.isfinite(x):
        raise ValueError('non-finite value cannot be written as a rational: %r' % x)
    m, e = math.frexp(x)
    num = int(m * (1 << 53)); e -= 53
    while num % 2 == 0:
        num //= 2; e += 1
    return (num, e)


def cz(z):
    z = complex(z)
    a = dyadic(z.real); b = dyadic(z.imag)
    return '(cz (%d,%d) (%d,%d))' % (a[0], a[1], b[0], b[1])


def tolq(t):
    n, e = dyadic(t)
    return '(dy (%d) (%d))' % (n, e)


def czl(v):
    return '[' + '; '.join(cz(z) for z in v) + ']'


def fl(x):
    x = float(x)
    if math.isnan(x):
        return 'nan'
    if math.isinf(x):
        return 'infinity' if x > 0 else 'neg_infinity'
    h = x.hex()
    return '(%s)' % h if h.startswith('-') else h


def fc(z):
    z = complex(z)
    return '(%s, %s)' % (fl(z.real), fl(z.imag))


def fcl(v):
    return '[' + '; '.join(fc(z) for z in v) + ']'


def fll(v):
    return '[' + '; '.join(fl(z) for z in v) + ']'


def natl(v):
    return '[' + '; '.join('%d' % int(z) for z in v) + ']%nat'


def hexv(v):
    """JSON-able exact rendering of a numeric vector (for replays)"""
    import numpy as np
    out = []
    for z in np.asarray(v).ravel().tolist():
        if isinstance(z, complex):
            out.append([float(z.real).hex(), float(z.imag).hex()])
        else:
            out.append(float(z).hex())
    return out


def unhexv(v):
    import numpy as np
    if len(v) and isinstance(v[0], list):
        return np.array([complex(float.fromhex(a), float.fromhex(b)) for a, b in v])
    return np.array([float.fromhex(a) for a in v])


# ----------------------------------------------------------------------------- Coq runners
def run_coqc(path, extra_R=(), timeout=COQ_TIMEOUT):
    cmd = ['coqc', '-q', '-w', '-notation-overridden,-deprecated-hint-without-locality,-deprecated-instance-without-locality,-ambiguous-paths',
           '-R', COQ, 'Spectrum']
    for d, n in extra_R:
        cmd += ['-R', d, n]
    cmd.append(path)
    try:
        p = subprocess.run(['timeout', str(timeout)] + cmd, capture_output=True, text=True, cwd=os.path.dirname(path))
    except Exception as e:  # pragma: no cover
        return 1, '', repr(e)
    return p.returncode, p.stdout, p.stderr


def make_cone(target, timeout=1800):
    """(re)build a .vo of the hand-written development with everything it depends on (full .vo build)."""
    lock = os.path.join(COQ, '.build.lock')
    cmd = ('cd %s && flock %s sh -c \'coq_makefile -f _CoqProject -o Makefile $(find Theory Model Instances Proofs Properties -name "*.v" | sort) '
           '&& timeout %d make -j16 %s\'') % (COQ, lock, timeout, target)
    p = subprocess.run(cmd, shell=True, capture_output=True, text=True)
    return p.returncode, p.stdout + p.stderr


class Ctx:
    def __init__(self, pid, tier, seed):
        import numpy as np
        self.pid = pid; self.tier = tier; self.seed = seed; self.escalate = False
        self.rng = np.random.default_rng(seed)
        self.t0 = time.time()
        self.work = os.path.join(SNAP or '/tmp', 'coqwork'); os.makedirs(self.work, exist_ok=True)
        self.evaluations = 0
        self.distinct = set()
        self.samples = []
        self.dist = {}
        self.obligations = []          # (name, ok, assumptions)
        self.broken = []               # names of theorems / correspondences that no longer check
        self.violations = []           # dict(key, what, replay)
        self.corr = {}                 # name -> dict(cases, disagreements)
        self.trusted = []
        self.assumptions = []
        self.unproved = []
        self.known_seen = []
        self.checker_cmds = []
        self.extra = {}

    # ---- bookkeeping
    def count(self, kind, n=1):
        self.dist[kind] = self.dist.get(kind, 0) + n

    def case(self, desc, nontrivial=True, sample=None):
        """register one explored case; desc must identify it (hashable / str)"""
        self.evaluations += 1
        if nontrivial:
            self.distinct.add(hashlib.md5(repr(desc).encode()).hexdigest())
        if sample is not None and len(self.samples) < 6:
            self.samples.append(sample)

    def violation(self, key, what, replay):
        self.violations.append({'key': key, 'what': what, 'replay': replay})

    def q(self, quick, thorough):
        # a broken proof obligation / translation / correspondence escalates the remaining streams of a quick run to the thorough budgets:
        # the search for a concrete failing input is what turns the break into a replay
        if self.tier == 'quick' and (self.broken or self.escalate) and os.environ.get('VERIF_NO_ESCALATION') != '1':
            self.escalate = True
            return thorough
        return quick if self.tier == 'quick' else thorough

    # ---- proofs
    def check_theorems(self, vfile, gen_deps=()):
        """compile Properties/<vfile> (and its cone) and record one obligation per Theorem in it."""
        src = os.path.join(COQ, vfile)
        text = open(src).read()
        names = re.findall(r'^\s*Theorem\s+([A-Za-z0-9_\']+)', text, re.M)
        rc, log = make_cone(vfile[:-2] + '.vo')
        cmd = 'make -C coq %s.vo && coqc -R coq Spectrum coq/%s' % (vfile[:-2], vfile)
        self.checker_cmds.append(cmd)
        if rc != 0:
            m = re.search(r'File "([^"]+)", line (\d+)', log)
            where = '%s:%s' % (m.group(1), m.group(2)) if m else vfile
            for n in names:
                self.obligations.append((n, False, []))
            self.broken.append({'theorem': vfile, 'where': where, 'log': log[-1500:]})
            return False
        # re-run the property file itself to capture Print Assumptions (cheap: exact + Print)
        rc, out, err = run_coqc(src)
        if rc != 0:
            for n in names:
                self.obligations.append((n, False, []))
            self.broken.append({'theorem': vfile, 'where': vfile, 'log': (out + err)[-1500:]})
            return False
        blocks = parse_assumptions(out)
        printed = re.findall(r'^\s*Print Assumptions\s+([A-Za-z0-9_\']+)', text, re.M)
        amap = dict(zip(printed, blocks))
        for n in names:
            self.obligations.append((n, True, amap.get(n, ['(not printed)'])))
        if self.tier == 'thorough':
            # independent re-check of the compiled property file and everything it depends on
            mod = 'Spectrum.' + vfile[:-2].replace('/', '.')
            try:
                pr = subprocess.run(['timeout', '2400', 'coqchk', '-silent', '-o', '-R', COQ, 'Spectrum', mod], capture_output=True, text=True)
                txt = pr.stdout + pr.stderr
                ax = re.findall(r'^\s{4}(\S+)\s*$', txt.split('* Axioms:')[1].split('* Constants')[0], re.M) if '* Axioms:' in txt else []
                self.extra['coqchk'] = {'module': mod, 'exit': pr.returncode, 'axioms_of_all_loaded_libraries': ax,
                                        'nothing_relies_on_type_in_type': ('<none>' in txt.split('type-in-type:')[1][:20]) if 'type-in-type:' in txt else None}
                self.checker_cmds.append('coqchk -silent -o -R coq Spectrum %s' % mod)
                if pr.returncode != 0:
                    self.broken.append({'theorem': 'coqchk:%s' % mod, 'where': vfile, 'log': txt[-1500:]})
            except Exception as e:  # pragma: no cover
                self.extra['coqchk'] = {'module': mod, 'error': repr(e)}
        forbidden = grep_forbidden()
        if forbidden:
            self.broken.append({'theorem': 'development hygiene', 'where': forbidden[0], 'log': '\n'.join(forbidden[:20])})
            return False
        return True

    def check_generated(self, name, vtext, theorem_names, deps_R=()):
        """compile a generated .v (model regenerated from the source + proofs over it)."""
        path = os.path.join(self.work, name + '.v')
        open(path, 'w').write(vtext)
        if re.search(r'\b(Admitted|admit|Axiom|Axioms|Parameter|Parameters|Conjecture|Admit Obligations)\b|Unset Guard|Unset Positivity|Unset Universe', strip_coq_comments(vtext)):
            self.broken.append({'theorem': '%s (generated file declares an axiom or admits a proof)' % name, 'where': path, 'log': ''})
            for n in theorem_names:
                self.obligations.append((n, False, []))
            return False, ''
        rc, out, err = run_coqc(path, extra_R=[(self.work, 'Gen')])
        self.checker_cmds.append('coqc -R coq Spectrum -R <work> Gen <work>/%s.v  (regenerated from %s/src on this run)' % (name, REPO))
        if rc != 0:
            m = re.search(r'line (\d+), characters', err)
            failing = None
            if m:
                ln = int(m.group(1)); upto = vtext.split('\n')[:ln]
                for l in reversed(upto):
                    mm = re.match(r'\s*(Theorem|Lemma|Example|Definition)\s+([A-Za-z0-9_\']+)', l)
                    if mm:
                        failing = mm.group(2); break
            for n in theorem_names:
                self.obligations.append((n, n != failing and failing is not None and theorem_names.index(n) < theorem_names.index(failing) if failing in theorem_names else False, []))
            self.broken.append({'theorem': '%s.%s' % (name, failing or '?'), 'where': path, 'log': (out + err)[-2000:]})
            keep = os.path.join(HOME, 'out', 'broken'); os.makedirs(keep, exist_ok=True)
            shutil.copy(path, os.path.join(keep, '%s_%s.v' % (self.pid, name)))
            return False, out
        blocks = parse_assumptions(out)
        for i, n in enumerate(theorem_names):
            self.obligations.append((n, True, blocks[i] if i < len(blocks) else ['(not printed)']))
        return True, out

    # ---- correspondence inside Coq
    def coq_cases(self, name, preamble, cases, shard=250, descr=None):
        """cases: list of Coq boolean expressions (model-vs-implementation agreement).
        Evaluated by vm_compute inside Coq; returns the indices that evaluate to false."""
        if not cases:
            self.corr[name] = {'cases': 0, 'disagreements': 0}
            return []
        # the case files import compiled modules of the development: make sure they are built (incremental, locked)
        need = sorted(set(m.replace('.', '/') + '.vo' for m in re.findall(r'Spectrum\.((?:Theory|Model|Instances|Proofs|Properties)\.[A-Za-z0-9_]+)', preamble)))
        need = [t for t in need if not os.path.exists(os.path.join(COQ, t)) or
                os.path.getmtime(os.path.join(COQ, t)) < os.path.getmtime(os.path.join(COQ, t[:-1]))]
        if need:
            rc, log = make_cone(' '.join(need))
            if rc != 0:
                self.broken.append({'theorem': 'build of modules needed by correspondence:%s' % name, 'where': ' '.join(need), 'log': log[-1500:]})
        files = []
        for s in range(0, len(cases), shard):
            chunk = cases[s:s + shard]
            path = os.path.join(self.work, '%s_%d.v' % (name, s // shard))
            with open(path, 'w') as f:
                f.write(preamble + '\n')
                f.write('Definition the_cases : list bool := [\n  ' + ';\n  '.join(chunk) + '\n].\n')
                f.write('Eval vm_compute in (length the_cases, bad_indices the_cases).\n')
            files.append((s, path))
        bad = []; failed = []

        def one(sp):
            s, path = sp
            rc, out, err = run_coqc(path)
            return s, rc, out, err
        with ThreadPoolExecutor(max_workers=12) as ex:
            for s, rc, out, err in ex.map(one, files):
                if rc != 0:
                    failed.append((s, (out + err)[-1200:])); continue
                flat = ' '.join(out.split())
                m = re.search(r'=\s*\((\d+)%?n?a?t?,\s*\[([^\]]*)\]\s*\)', flat)
                if not m:
                    failed.append((s, 'unparsable coqc output: ' + flat[-400:])); continue
                if m.group(2).strip():
                    bad += [s + int(t.replace('%nat', '')) for t in m.group(2).split(';')]
        self.corr[name] = {'cases': len(cases), 'disagreements': len(bad), 'description': descr or ''}
        self.checker_cmds.append('coqc <work>/%s_*.v  (%d cases, vm_compute inside Coq)' % (name, len(cases)))
        if failed:
            self.broken.append({'theorem': 'correspondence:%s (case file does not compile)' % name, 'where': name, 'log': failed[0][1]})
        return sorted(bad)

    def corr_disagreement(self, name, idx, info):
        """a model/implementation disagreement: by itself not a violation of the property, but the
        model no longer describes the code, so the theorems no longer speak about it."""
        self.broken.append({'theorem': 'correspondence:%s' % name, 'where': 'case %s' % idx, 'log': json.dumps(info)[:3000]})

    # ---- verdict
    def finish(self, level_text, trusted, unproved, assumptions, rule):
        known = load_known()
        wall = time.time() - self.t0
        out_dir = os.path.join(HOME, 'out', 'replays'); os.makedirs(out_dir, exist_ok=True)
        new = []; printed = set()
        for v in self.violations:
            k = match_known(known, self.pid, v['key'])
            if k is not None:
                if k['key'] not in printed:
                    print('KNOWN-FINDING: property=%s %s' % (self.pid, k['what']))
                    printed.add(k['key'])
                continue
            new.append(v)
        status = 0
        lines = []
        if new:
            v = new[0]
            path = os.path.join(out_dir, '%s-%s.json' % (self.pid, re.sub(r'[^A-Za-z0-9_.-]', '_', v['key'])[:80]))
            json.dump({'property': self.pid, 'key': v['key'], 'what': v['what'], 'replay': v['replay'],
                       'all_new_violation_keys': sorted(set(x['key'] for x in new))[:50],
                       'broken_obligations': self.broken[:5],
                       'how_to_replay': './check %s --replay %s' % (self.pid, path)}, open(path, 'w'), indent=1)
            lines.append('VIOLATION property=%s replay=%s' % (self.pid, path))
            status = 1
        elif self.broken:
            b = self.broken[0]
            path = os.path.join(out_dir, '%s-broken-%s.json' % (self.pid, re.sub(r'[^A-Za-z0-9_.-]', '_', b['theorem'])[:60]))
            json.dump({'property': self.pid, 'no_failing_input_found': True,
                       'no_longer_checks': [x['theorem'] for x in self.broken], 'details': self.broken[:10],
                       'search': 'property-directed search over %d cases found no failing input' % self.evaluations},
                      open(path, 'w'), indent=1)
            lines.append('VIOLATION property=%s replay=%s no-failing-input-found' % (self.pid, path))
            status = 1
        nobl = len(self.obligations); ndis = sum(1 for o in self.obligations if o[1])
        axioms = sorted(set(a for o in self.obligations for a in o[2]))
        ev = {
            'property_id': self.pid, 'tier': self.tier, 'seed': int(self.seed), 'level': 'proof',
            'coverage': {
                'obligations': nobl, 'discharged': ndis,
                'checker_cmd': ' ; '.join(dict.fromkeys(self.checker_cmds)) or 'coqc',
                'trusted_base': trusted + ['axioms reported by Print Assumptions: ' + ('; '.join(axioms) if axioms else 'none')],
                'theorems': [{'name': o[0], 'checked': o[1], 'assumptions': o[2]} for o in self.obligations],
                'not_proved': unproved,
                'evaluations': int(self.evaluations), 'distinct_nontrivial': len(self.distinct),
                'rule': rule, 'samples': self.samples[:6] or ['(none)'],
                'input_distribution': self.dist,
                'correspondence': self.corr,
                'known_findings_reproduced': sorted(printed),
                'broken': [x['theorem'] for x in self.broken],
                'explanation': level_text,
            },
            'assumptions': assumptions,
            'wall_s': round(wall, 2),
            'violations': len(new) + (1 if (self.broken and not new) else 0),
        }
        ev['coverage'].update(self.extra)
        if 'exhaustive' in ev['coverage'] and not isinstance(ev['coverage']['exhaustive'], bool):
            # the schema wants a boolean; keep the description of the exhaustively enumerated sub-spaces next to it
            ev['coverage']['exhaustive_subspaces'] = ev['coverage']['exhaustive']
            ev['coverage']['exhaustive'] = bool(ev['coverage']['exhaustive'])
        evdir = os.environ.get('VERIF_EVIDENCE_DIR') or os.path.join(HOME, 'evidence')     # (seedtest redirects it: runs against mutated trees are not evidence)
        os.makedirs(evdir, exist_ok=True)
        json.dump(ev, open(os.path.join(evdir, self.pid + '.json'), 'w'), indent=1, default=str)
        for l in lines:
            print(l)
        print('%s %s: %d/%d obligations, %d cases (%d distinct non-trivial), correspondence %s, %d new violation(s), %.1fs' % (
            self.pid, self.tier, ndis, nobl, self.evaluations, len(self.distinct),
            {k: '%d/%d' % (v['cases'] - v['disagreements'], v['cases']) for k, v in self.corr.items()}, len(new), wall))
        return status


def parse_assumptions(out):
    """split coqc stdout into one block per Print Assumptions (axiom names; a name may be printed alone on its
    line with its type on the following, indented, lines)"""
    blocks = []; cur = None
    for line in out.split('\n'):
        if line.startswith('Closed under the global context'):
            if cur is not None:
                blocks.append(cur)
            blocks.append([]); cur = None
        elif line.startswith('Axioms:'):
            if cur is not None:
                blocks.append(cur)
            cur = []
        elif cur is not None:
            if not line.strip():
                continue
            if line.startswith(' '):
                continue                      # continuation of the previous axiom's type
            m = re.match(r'^([A-Za-z_][A-Za-z0-9_.\']*)\s*(:.*)?$', line)
            if m:
                cur.append(m.group(1))
            else:
                blocks.append(cur); cur = None
    if cur is not None:
        blocks.append(cur)
    return blocks


def strip_coq_comments(text):
    """remove (possibly nested, multi-line) Coq comments, keeping line structure"""
    out = []; depth = 0; i = 0; n = len(text); instr = False
    while i < n:
        c = text[i]
        if depth == 0 and c == '"':
            instr = not instr; out.append(c); i += 1; continue
        if not instr and text.startswith('(*', i):
            depth += 1; i += 2; continue
        if not instr and depth > 0 and text.startswith('*)', i):
            depth -= 1; i += 2; continue
        if depth > 0:
            out.append('\n' if c == '\n' else ' ')
        else:
            out.append(c)
        i += 1
    return ''.join(out)


def grep_forbidden():
    """no axiom-like declaration, no admitted proof, no switched-off kernel check, and no Variable/Hypothesis/Context
    outside a Section (which would declare an axiom), anywhere in the development"""
    pat = re.compile(r'\b(Admitted|admit|Axiom|Axioms|Parameter|Parameters|Conjecture|Conjectures|bypass_check|Admit Obligations)\b|Unset Guard|Unset Positivity|Unset Universe|type-in-type|impredicative-set')
    hits = []
    for f in glob.glob(os.path.join(COQ, '**', '*.v'), recursive=True):
        text = strip_coq_comments(open(f).read())
        depth = 0
        for i, l in enumerate(text.split('\n'), 1):
            if pat.search(l):
                hits.append('%s:%d: %s' % (f, i, l.strip()))
            if re.match(r'\s*(Section|Module)\s', l) and not re.match(r'\s*Module\s+\S+\s*:=', l):
                depth += 1
            elif re.match(r'\s*End\s', l):
                depth -= 1
            elif depth <= 0 and re.match(r'\s*(Variable|Variables|Hypothesis|Hypotheses)\b', l):
                hits.append('%s:%d: %s  (outside a Section: declares an axiom)' % (f, i, l.strip()))
    return hits


def load_known():
    p = os.path.join(HOME, 'known_findings.json')
    if not os.path.exists(p):
        return []
    return json.load(open(p))['findings']


def match_known(known, pid, key):
    for k in known:
        if k.get('status') == 'finding' and k['property'] == pid and k['key'] == key:
            return k
    return None
