"""renders notes/seed_matrix*.txt (output of tools/seedmatrix.sh) + seeded/*/meta.json as the markdown table of DESIGN.md 0.5"""
import glob, json, os, re, sys
HOME = os.path.dirname(os.path.dirname(os.path.abspath(__file__)))
res = {}
for f in sorted(glob.glob(os.path.join(HOME, 'notes', 'seed_matrix*.txt'))):
    for l in open(f):
        m = re.match(r'(\S+) (C\d+) exit=(\d)(.*)', l)
        if m:
            res[(m.group(1), m.group(2))] = ('caught' if m.group(3) == '1' else 'MISSED') + (' (no failing input, broken tie only)' if 'no-failing-input-found' in m.group(4) else '')
rows = []
for d in sorted(glob.glob(os.path.join(HOME, 'seeded', '*'))):
    b = os.path.basename(d)
    try:
        meta = json.load(open(os.path.join(d, 'meta.json')))
    except Exception:
        meta = {}
    summ = (meta.get('summary') or meta.get('subject') or '').replace('|', '/').replace('\n', ' ')
    needs = (meta.get('needs') or '').replace('|', '/').replace('\n', ' ')
    got = '; '.join('%s: %s' % (p, r) for (s, p), r in sorted(res.items()) if s == b) or '(not run yet)'
    origin = 'revert of a fix' if b.startswith('revert') else ('independent sub-agent' if re.search(r'-(i\d|m\d)$', b) and not meta.get('by_builder') else 'builder')
    rows.append('| `%s` | %s | %s | %s |' % (b, summ[:170], needs[:150], got))
print('| seed | change | needs | result of `./check` on the changed tree |\n|---|---|---|---|')
print('\n'.join(rows))
