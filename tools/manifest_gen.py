"""writes MANIFEST.json from the table below (kept valid at all times)"""
import json, os
HOME = os.path.dirname(os.path.dirname(os.path.abspath(__file__)))
props = [json.loads(l) for l in open(os.path.join(HOME, 'properties.jsonl'))]
import glob
CLAIMED = {os.path.basename(f)[:-5]: json.load(open(f)) for f in sorted(glob.glob(os.path.join(HOME, 'tools', 'claimed.d', 'C*.json')))}
checks = []; na = []
for p in props:
    pid = p['id']
    if pid in CLAIMED:
        c = CLAIMED[pid]
        checks.append({
            'property_id': pid,
            'quick_cmd': './check %s --tier quick' % pid,
            'thorough_cmd': './check %s --tier thorough' % pid,
            'evidence_file': 'evidence/%s.json' % pid,
            'replay_cmd_template': './check %s --replay {path}' % pid,
            'engine': 'coq-model+correspondence',
            'level_claimed': {'category': 'proof', 'text': c['text'], 'design_ref': c.get('design_ref', 'DESIGN.md section 4 (%s)' % pid)},
            'level_note': c['note'],
            'technique': c['technique'],
        })
    else:
        na.append({'property_id': pid, 'reason': 'not claimed yet: the Coq model, theorems and correspondence for this property are not built at this commit (see DESIGN.md section 8, build order)'})
m = {
    'version': 1,
    'setup_cmd': 'cd coq && coq_makefile -f _CoqProject -o Makefile $(find Theory Model Instances Proofs Properties -name "*.v" | sort) && make -j16',
    'hooks': {'guard': 'SPECTRUM_VERIF', 'enable': 'no source hooks are needed: checks observe the public API and name-mangled attributes of a snapshot of /repo/src taken on every run; SPECTRUM_VERIF=1 is exported by ./check for completeness',
              'baseline_off_cmd': 'cd /repo && /venv/bin/python -m pytest -ra -q -p no:cacheprovider --timeout=900 --continue-on-collection-errors',
              'source_commits': [], 'add_only': True},
    'engines': [{'name': 'coq-model+correspondence', 'path': 'check', 'serves_properties': sorted(CLAIMED),
                 'kind_free_text': 'Coq 8.16.1 theorems about an executable Gallina model (coq/), tied to the source by (a) in-Coq exact/float correspondence on generated cases, (b) AST translators regenerating configuration-like models on every run, plus a property-directed search on the implementation that produces the replay'}],
    'checks': checks,
    'not_applicable': na,
    'notes': 'Every check snapshots /repo/src (or $SPECTRUM_REPO/src) at run time. Genuine defects repaired in /repo are listed as fixed: entries in known_findings.json; see DESIGN.md section 5.',
}
json.dump(m, open(os.path.join(HOME, 'MANIFEST.json'), 'w'), indent=1)
print('claimed', len(checks), 'not claimed', len(na))
