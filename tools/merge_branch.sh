#!/bin/bash
# lead-only helper: merge a builder branch b-Cxx, regenerate the manifest, run the quick check here, report
p=$1
cd /verif || exit 2
git merge --no-edit b-$p 2>&1 | tail -2
python3 tools/manifest_gen.py
( cd coq && coq_makefile -f _CoqProject -o Makefile $(find Theory Model Instances Proofs Properties -name "*.v" | sort) >/dev/null 2>&1 )
./check $p 2>&1 | tail -3
