#!/bin/bash
# seedtest.sh <seed-dir> [--tests] [--tier quick|thorough] : applies seeded/<id>-mN/patch.diff to a scratch worktree of /repo HEAD,
# confirms the demonstration (fails with, passes without), optionally the test suite, then runs ./check <Cxx>
# (or the properties given in $PROPS) against the mutated tree through SPECTRUM_REPO.  Nothing touches /repo itself.
VH=$(cd "$(dirname "$0")/.." && pwd)
d=$(cd "$1" && pwd); shift
tests=0; tier=quick
while [ $# -gt 0 ]; do case $1 in --tests) tests=1;; --tier) tier=$2; shift;; esac; shift; done
pid=$(basename $d | cut -d- -f1)
case $pid in revert) pid=$(python3 -c "import json,sys;print(' '.join(json.load(open(sys.argv[1]))['properties']))" $d/meta.json);; esac
props=${PROPS:-$pid}
wt=$(mktemp -d /tmp/seedwt.XXXXXX); rmdir $wt
git -C /repo worktree add -q --detach $wt HEAD || exit 2
trap 'git -C /repo worktree remove --force $wt 2>/dev/null; rm -rf $wt' EXIT
( cd $wt && git apply $d/patch.diff ) || { echo "PATCH DOES NOT APPLY"; exit 2; }
gcc -O2 -shared -fPIC -o $wt/src/spectrum/mydpss.cpython-312-x86_64-linux-gnu.so $wt/src/cpp/mydpss.c -lm 2>/dev/null
if [ -f $d/demo.py ]; then
  ( cd $wt && PYTHONPATH=$wt/src /venv/bin/python -W ignore $d/demo.py >/dev/null 2>&1 ); echo "demo with change: exit $? (expect 1)"
  ( cd /tmp && PYTHONPATH=/repo/src /venv/bin/python -W ignore $d/demo.py >/dev/null 2>&1 ); echo "demo without change: exit $? (expect 0)"
fi
if [ $tests = 1 ]; then ( cd $wt && PYTHONPATH=$wt/src /venv/bin/python -m pytest -q -p no:cacheprovider test 2>&1 | tail -1 ); fi
for p in $props; do
  ( cd $VH && VERIF_EVIDENCE_DIR=$wt/evidence SPECTRUM_REPO=$wt ./check $p --tier $tier > $wt/check.log 2>&1; echo "check $p exit $?"; grep -v "^Traceback\|^  File\|^    " $wt/check.log | tail -3 )
done
