#!/bin/bash
# lead helper: run every seeded change against the checks of the properties it names; prints one line per (seed, property)
# usage: tools/seedmatrix.sh [seed-dir ...]   (default: all of seeded/*)   env CLAIMED="C03 C04 ..." restricts the properties
VH=$(cd "$(dirname "$0")/.." && pwd)
claimed=${CLAIMED:-$(ls $VH/tools/claimed.d | sed 's/.json//' | tr '\n' ' ')}
seeds=${@:-$VH/seeded/*}
for d in $seeds; do
  b=$(basename $d)
  if [ -f $d/meta.json ]; then props=$(python3 -c "
import json,sys
m=json.load(open(sys.argv[1]))
p=m.get('properties') or [m.get('property')]
print(' '.join(x for x in p if x))" $d/meta.json); else props=$(echo $b | cut -d- -f1); fi
  [ -z "$props" ] && props=$(echo $b | cut -d- -f1)
  for p in $props; do
    case " $claimed " in *" $p "*) ;; *) echo "$b $p not-claimed"; continue;; esac
    out=$(PROPS=$p $VH/tools/seedtest.sh $d 2>&1)
    rc=$(echo "$out" | grep -o "check $p exit [0-9]*" | awk '{print $4}')
    demo=$(echo "$out" | grep -c "demo with change: exit 1")
    nf=$(echo "$out" | grep -c "no-failing-input-found")
    echo "$b $p exit=$rc demo_fails_with_change=$demo $( [ "$nf" = 1 ] && echo no-failing-input-found )"
  done
done
