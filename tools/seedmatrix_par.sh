#!/bin/bash
# parallel variant of seedmatrix.sh: tools/seedmatrix_par.sh <jobs> <outfile> [seed-dir ...]
VH=$(cd "$(dirname "$0")/.." && pwd)
jobs=$1; out=$2; shift 2
seeds=${@:-$VH/seeded/*}
: > $out
printf "%s\n" $seeds | xargs -P $jobs -I{} bash -c "$VH/tools/seedmatrix.sh {} >> $out 2>&1"
sort -o $out $out
