"""driver: run_check.py <Cxx> [--tier quick|thorough] [--replay file]"""
import argparse, importlib, json, os, sys, traceback
sys.path.insert(0, os.path.dirname(os.path.abspath(__file__)))
import vlib


def main():
    ap = argparse.ArgumentParser()
    ap.add_argument('pid')
    ap.add_argument('--tier', default=os.environ.get('VERIF_TIER', 'quick'), choices=['quick', 'thorough'])
    ap.add_argument('--replay', default=None)
    a = ap.parse_args()
    seed = int(os.environ.get('VERIF_SEED', '20260926'))
    try:
        # a runaway allocation (possible only on a tree that changed) must surface as MemoryError inside the check,
        # where it is reported, not as a kernel kill of the whole run
        import resource
        lim = int(os.environ.get('VERIF_MEM_GB', '24')) << 30
        resource.setrlimit(resource.RLIMIT_AS, (lim, lim))
    except Exception:
        pass
    import spectrum
    snap = os.environ.get('VERIF_SNAPSHOT', '')
    if not snap or not os.path.abspath(spectrum.__file__).startswith(os.path.abspath(snap)):
        print('refusing to run: spectrum was imported from %s, not from the snapshot %s' % (spectrum.__file__, snap))
        return 2
    mod = importlib.import_module('props.' + a.pid)
    if a.replay:
        rep = json.load(open(a.replay))
        ok = mod.replay(rep)
        print('replay %s: %s' % (a.replay, 'property holds on this input' if ok else 'property FAILS on this input'))
        return 0 if ok else 1
    ctx = vlib.Ctx(a.pid, a.tier, seed)
    try:
        mod.run(ctx)
    except Exception:
        tb = traceback.format_exc()
        ctx.broken.append({'theorem': 'harness:%s (exception while checking)' % a.pid, 'where': 'run', 'log': tb[-3000:]})
        sys.stderr.write(tb)
    return ctx.finish(mod.LEVEL_TEXT, mod.TRUSTED, mod.UNPROVED, mod.ASSUMPTIONS, mod.RULE)


if __name__ == '__main__':
    sys.exit(main())
